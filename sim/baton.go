//go:build race

package main

// Baton passing between the scheduler goroutine and the task goroutines.
//
// A baton hand-off must (a) physically serialise execution, so that a
// run is a pure function of its plan, and (b) be INVISIBLE to the Go
// race detector, so that two tasks' accesses to the same memory are
// still reported as unordered unless the code under test (or the
// synchronisation a real host would have) orders them. Channels,
// sync.*, os.File and syscall.Read/Write all carry race annotations
// (happens-before edges); raw syscall.Syscall on a pipe issued from a
// //go:norace function carries none.

import (
	"syscall"
	"unsafe"
)

type pipe struct{ r, w int }

func newPipe() pipe {
	var fds [2]int
	if err := syscall.Pipe(fds[:]); err != nil {
		panic("pipe: " + err.Error())
	}
	return pipe{fds[0], fds[1]}
}

func (p pipe) close() {
	syscall.Close(p.r)
	syscall.Close(p.w)
}

//go:norace
func (p *pipe) signal() {
	var b [1]byte
	for {
		n, _, e := syscall.Syscall(syscall.SYS_WRITE, uintptr(p.w), uintptr(unsafe.Pointer(&b[0])), 1)
		if e == syscall.EINTR || e == syscall.EAGAIN {
			continue
		}
		if e != 0 || n != 1 {
			fatalBaton(int(e))
		}
		return
	}
}

//go:norace
func (p *pipe) wait() {
	var b [1]byte
	for {
		n, _, e := syscall.Syscall(syscall.SYS_READ, uintptr(p.r), uintptr(unsafe.Pointer(&b[0])), 1)
		if e == syscall.EINTR || e == syscall.EAGAIN {
			continue
		}
		if e != 0 || n != 1 {
			fatalBaton(int(e))
		}
		return
	}
}

func fatalBaton(e int) {
	println("HARNESS-TROUBLE: baton syscall failed, errno", e)
	syscall.Exit(2)
}
