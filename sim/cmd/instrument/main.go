// instrument: build-time source instrumentation for the simulator.
//
// The baton scheduler can only switch tasks at yield points, and the
// race monitor cannot see sharing that goes through sync/atomic or a
// mutex. Code that shares state that way (it does not exist in redact at
// the pinned commit, but a change may introduce it: a memo, a cache, a
// lazily initialised table) would therefore neither be interleaved nor
// reported. This tool closes that gap: it scans the library's non-test
// sources for statements that call into sync/atomic or use
// Load/Store/Swap/CompareAndSwap/Add/Lock/Unlock/RLock/RUnlock/Do/...
// methods, and produces a `go build -overlay` in which each such
// statement is preceded by a call to a yield hook. /repo itself is
// never modified. On a tree without such statements the overlay only
// adds the (never called) hook package.
//
// usage: instrument -repo /repo -out DIR   (writes DIR/overlay.json)
package main

import (
	"encoding/json"
	"flag"
	"fmt"
	"go/ast"
	"go/parser"
	"go/token"
	"os"
	"path/filepath"
	"sort"
	"strings"
)

var syncMethods = map[string]bool{
	"Load": true, "Store": true, "Swap": true, "CompareAndSwap": true, "Add": true, "And": true, "Or": true,
	"TryLock": true, "TryRLock": true,
	"LoadOrStore": true, "LoadAndDelete": true, "CompareAndDelete": true, "Range": true,
}

// Lock-like calls are rewritten as expressions (see lockRewrites): the
// scheduler must never switch tasks while the running task holds a real
// lock - another task would block on it for good - so the wrappers keep
// a per-task lock depth and yields are suppressed inside critical
// sections. x.Lock() becomes verifSyncLock(x.Lock) (yield, then lock,
// depth+1), x.Unlock() becomes verifSyncUnlock(x.Unlock) (unlock,
// depth-1; a method value binds its receiver where the original
// evaluated it, so `defer mu.Unlock()` keeps its meaning), and
// once.Do(f) becomes verifSyncDo(once.Do, f) (yield, depth+1 around).
var lockMethods = map[string]string{"Lock": "verifSyncLock", "RLock": "verifSyncLock", "Unlock": "verifSyncUnlock", "RUnlock": "verifSyncUnlock"}

func isSyncCall(c *ast.CallExpr) bool {
	sel, ok := c.Fun.(*ast.SelectorExpr)
	if !ok {
		return false
	}
	if id, ok := sel.X.(*ast.Ident); ok && id.Name == "atomic" {
		return true
	}
	return syncMethods[sel.Sel.Name]
}

// hasSyncCall looks at the expressions of n, not descending into
// function literals or nested statement lists (those are visited on
// their own).
func hasSyncCall(n ast.Node) bool {
	found := false
	ast.Inspect(n, func(x ast.Node) bool {
		if found || x == nil {
			return false
		}
		switch v := x.(type) {
		case *ast.FuncLit, *ast.BlockStmt, *ast.CaseClause, *ast.CommClause:
			return false
		case *ast.CallExpr:
			if isSyncCall(v) {
				found = true
				return false
			}
		}
		return true
	})
	return found
}

func headerHasSyncCall(s ast.Stmt) bool {
	switch v := s.(type) {
	case *ast.IfStmt:
		return (v.Init != nil && hasSyncCall(v.Init)) || hasSyncCall(v.Cond)
	case *ast.ForStmt:
		return (v.Init != nil && hasSyncCall(v.Init)) || (v.Cond != nil && hasSyncCall(v.Cond)) || (v.Post != nil && hasSyncCall(v.Post))
	case *ast.RangeStmt:
		return hasSyncCall(v.X)
	case *ast.SwitchStmt:
		return (v.Init != nil && hasSyncCall(v.Init)) || (v.Tag != nil && hasSyncCall(v.Tag))
	case *ast.TypeSwitchStmt:
		return (v.Init != nil && hasSyncCall(v.Init)) || hasSyncCall(v.Assign)
	case *ast.BlockStmt, *ast.SelectStmt, *ast.LabeledStmt:
		return false
	}
	return hasSyncCall(s)
}

func main() {
	repo := flag.String("repo", "/repo", "")
	out := flag.String("out", "", "")
	flag.Parse()
	if *out == "" {
		fmt.Fprintln(os.Stderr, "usage: instrument -repo DIR -out DIR")
		os.Exit(2)
	}
	overlay := map[string]string{}
	pkgs := map[string]string{} // dir -> package name
	sites := 0
	var report []string
	filepath.Walk(*repo, func(path string, info os.FileInfo, err error) error {
		if err != nil {
			return nil
		}
		if info.IsDir() {
			n := info.Name()
			if n == ".git" || n == "verifhooks" || n == "SEEDED" || n == "REFACTOR" || n == "testdata" {
				return filepath.SkipDir
			}
			return nil
		}
		if !strings.HasSuffix(path, ".go") || strings.HasSuffix(path, "_test.go") || strings.HasPrefix(info.Name(), "verif_") {
			return nil
		}
		src, err := os.ReadFile(path)
		if err != nil {
			return nil
		}
		fset := token.NewFileSet()
		f, err := parser.ParseFile(fset, path, src, parser.ParseComments)
		if err != nil {
			return nil
		}
		var offsets []int
		type rewrite struct {
			from, to int
			text     string
		}
		var rewrites []rewrite
		off := func(p token.Pos) int { return fset.Position(p).Offset }
		ast.Inspect(f, func(x ast.Node) bool {
			c, ok := x.(*ast.CallExpr)
			if !ok {
				return true
			}
			sel, ok := c.Fun.(*ast.SelectorExpr)
			if !ok {
				return true
			}
			fun := string(src[off(c.Fun.Pos()):off(c.Fun.End())])
			if w, ok := lockMethods[sel.Sel.Name]; ok && len(c.Args) == 0 {
				rewrites = append(rewrites, rewrite{off(c.Pos()), off(c.End()), w + "(" + fun + ")"})
			} else if sel.Sel.Name == "Do" && len(c.Args) == 1 {
				arg := string(src[off(c.Args[0].Pos()):off(c.Args[0].End())])
				rewrites = append(rewrites, rewrite{off(c.Pos()), off(c.End()), "verifSyncDo(" + fun + ", " + arg + ")"})
			}
			return true
		})
		visitList := func(list []ast.Stmt) {
			for _, s := range list {
				if headerHasSyncCall(s) {
					offsets = append(offsets, fset.Position(s.Pos()).Offset)
				}
			}
		}
		ast.Inspect(f, func(x ast.Node) bool {
			switch v := x.(type) {
			case *ast.BlockStmt:
				visitList(v.List)
			case *ast.CaseClause:
				visitList(v.Body)
			case *ast.CommClause:
				visitList(v.Body)
			}
			return true
		})
		if len(offsets) == 0 && len(rewrites) == 0 {
			return nil
		}
		// apply all edits from the end of the file backwards; nested
		// rewrites (a Do whose argument contains a Lock) are applied
		// innermost first because inner calls end earlier... to keep it
		// simple, a rewrite that encloses another one is dropped
		var edits []rewrite
		for _, o := range offsets {
			edits = append(edits, rewrite{o, o, "verifSyncYield(); "})
		}
		for i, r := range rewrites {
			enclosing := false
			for j, q := range rewrites {
				if i != j && r.from <= q.from && q.to <= r.to {
					enclosing = true
				}
			}
			if !enclosing {
				edits = append(edits, r)
			}
		}
		sort.Slice(edits, func(a, c int) bool {
			if edits[a].from != edits[c].from {
				return edits[a].from > edits[c].from
			}
			return edits[a].to > edits[c].to
		})
		b := src
		for _, ed := range edits {
			b = append(b[:ed.from:ed.from], append([]byte(ed.text), b[ed.to:]...)...)
		}
		rel, _ := filepath.Rel(*repo, path)
		dst := filepath.Join(*out, rel)
		os.MkdirAll(filepath.Dir(dst), 0o755)
		if err := os.WriteFile(dst, b, 0o644); err != nil {
			fmt.Fprintln(os.Stderr, err)
			os.Exit(2)
		}
		overlay[path] = dst
		pkgs[filepath.Dir(path)] = f.Name.Name
		sites += len(offsets) + len(rewrites)
		report = append(report, fmt.Sprintf("%s:%d", rel, len(offsets)))
		return nil
	})
	// module path
	mod := "github.com/cockroachdb/redact"
	if gm, err := os.ReadFile(filepath.Join(*repo, "go.mod")); err == nil {
		for _, l := range strings.Split(string(gm), "\n") {
			if strings.HasPrefix(l, "module ") {
				mod = strings.TrimSpace(strings.TrimPrefix(l, "module "))
			}
		}
	}
	write := func(real, content string) {
		dst := filepath.Join(*out, "gen", strings.ReplaceAll(strings.TrimPrefix(real, *repo), "/", "_"))
		os.MkdirAll(filepath.Dir(dst), 0o755)
		if err := os.WriteFile(dst, []byte(content), 0o644); err != nil {
			fmt.Fprintln(os.Stderr, err)
			os.Exit(2)
		}
		overlay[real] = dst
	}
	for dir, name := range pkgs {
		write(filepath.Join(dir, "verif_syncyield_gen.go"),
			"package "+name+"\n\nimport verifyield \""+mod+"/internal/verifyield\"\n\nfunc verifSyncYield() { verifyield.Yield() }\n\n"+
				"func verifSyncLock(lock func()) { verifyield.Yield(); lock(); verifyield.Depth(1) }\n\n"+
				"func verifSyncUnlock(unlock func()) { unlock(); verifyield.Depth(-1) }\n\n"+
				"func verifSyncDo(do func(func()), f func()) { verifyield.Yield(); verifyield.Depth(1); defer verifyield.Depth(-1); do(f) }\n")
	}
	write(filepath.Join(*repo, "internal", "verifyield", "yield.go"),
		"// Package verifyield exists only in the simulator's build overlay.\npackage verifyield\n\n// Hook is called before every statement of the library that uses sync or sync/atomic.\nvar Hook func()\n\n// DepthHook is told when the library takes (+1) or releases (-1) a lock.\nvar DepthHook func(int)\n\nfunc Yield() {\n\tif h := Hook; h != nil {\n\t\th()\n\t}\n}\n\nfunc Depth(d int) {\n\tif h := DepthHook; h != nil {\n\t\th(d)\n\t}\n}\n")
	write(filepath.Join(*repo, "verifhooks", "syncyield_gen.go"),
		"//go:build verif\n\npackage verifhooks\n\nimport verifyield \""+mod+"/internal/verifyield\"\n\n// SetSyncYieldHook installs the yield hook of the build overlay.\nfunc SetSyncYieldHook(f func()) { verifyield.Hook = f }\n\n// SetLockDepthHook installs the lock-depth hook of the build overlay.\nfunc SetLockDepthHook(f func(int)) { verifyield.DepthHook = f }\n")
	ob, _ := json.MarshalIndent(map[string]interface{}{"Replace": overlay}, "", " ")
	if err := os.WriteFile(filepath.Join(*out, "overlay.json"), ob, 0o644); err != nil {
		fmt.Fprintln(os.Stderr, err)
		os.Exit(2)
	}
	sort.Strings(report)
	fmt.Printf("instrument: %d sync/atomic statement(s) preceded by a yield point %v\n", sites, report)
}
