//go:build !race

package main

// Without the race detector there is no happens-before tracking to stay
// invisible to, so the baton is a plain channel hand-off (a goroutine
// switch inside the Go scheduler, two orders of magnitude cheaper than
// waking an OS thread through a pipe). Execution is serialised in the
// same way and the schedule is the same function of the plan; the
// determinism check compares the event logs of both builds.

type pipe struct{ c chan struct{} }

func newPipe() pipe { return pipe{make(chan struct{}, 1)} }

func (p pipe) close() {}

func (p *pipe) signal() { p.c <- struct{}{} }

func (p *pipe) wait() { <-p.c }
