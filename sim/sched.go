package main

// The deterministic scheduler and SimPool.
//
// One goroutine (the scheduler, running on the goroutine that called
// execute) owns every decision: which task runs next at every yield
// point, and which printer every newPrinter() receives. Tasks are real
// goroutines, exactly one of which runs at any time; the others are
// parked in a raw pipe read (baton.go).
//
// Memory discipline (this matters under -race): state shared between
// the scheduler and the tasks is limited to the per-task mailbox fields
// and the global `current`, all plain words accessed only from
// //go:norace functions. Everything else is owned by exactly one
// goroutine, or is protected by the per-printer atomic word that
// reproduces sync.Pool's guarantee (Put(x) synchronises before the Get
// that returns x), or is handed over by real synchronisation that a
// real host program would also have (go statement, WaitGroup, channel
// to the sink).

import (
	"fmt"
	"hash/fnv"
	"strings"
	"sync/atomic"
	"unsafe"

	hooks "github.com/cockroachdb/redact/verifhooks"
)

const (
	reqYield = iota + 1
	reqGet
	reqPut
	reqDone
	reqFinal
)

// yield point kinds (logged; part of the schedule trace)
const (
	yBetweenOps = iota
	yCallback
	yWriter
	yBeforeGet
	yAfterGet
	yAfterPut
	ySession
	ySink
	yStart
	yLibSync
	nYieldKinds
)

var yieldNames = [...]string{"betweenops", "callback", "writer", "beforeget", "afterget", "afterput", "session", "sink", "start", "library-sync-statement"}

// prec is the simulator's record of one printer object.
type prec struct {
	id int
	p  *hooks.Printer

	// scheduler-owned
	state     int // 0 out, 1 idle, 2 dropped
	holder    int
	lastPutBy int

	// sh is the part touched by tasks. The scheduler allocates it and
	// never reads or writes its fields.
	sh *pshared
}

// pshared is protected by its sync word: written by the putter before
// its release-store, read by the getter after its acquire-load. This is
// exactly the edge sync.Pool guarantees, and the only one the
// simulator adds between tasks.
type pshared struct {
	sync      uint32
	fpAtPut   uint64
	lastClass int // op class + 1 of the last user; 0 = none
	puts      int
}

type task struct {
	id   int
	pipe pipe
	sim  *sim
	env  *env

	// mailbox (norace access only)
	mbKind int
	mbArg  int
	mbPtr  unsafe.Pointer
	rsPtr  unsafe.Pointer
	rsRec  unsafe.Pointer
	rsInt  int

	// scheduler-owned
	pendingGet *hooks.Printer // a get request whose pool decision is taken when the task is next resumed
	hasPending bool
	tape       []int
	tapePos    int
	done       bool
	isSink     bool
}

type poolStats struct {
	GetsFresh        int `json:"gets_fresh"`
	GetsRecycledSame int `json:"gets_recycled_same_task"`
	GetsRecycledX    int `json:"gets_recycled_cross_task"`
	GetsWhileOut     int `json:"gets_while_same_task_holds_another"`
	Puts             int `json:"puts"`
	Drops            int `json:"drops"`
	Flushes          int `json:"flushes"`
	FlushedPrinters  int `json:"flushed_printers"`
	Abandoned        int `json:"abandoned_printers"`
	MaxOut           int `json:"max_printers_out"`
	PoisonedBytes    int `json:"poisoned_bytes"`
}

func (a *poolStats) add(b *poolStats) {
	a.GetsFresh += b.GetsFresh
	a.GetsRecycledSame += b.GetsRecycledSame
	a.GetsRecycledX += b.GetsRecycledX
	a.GetsWhileOut += b.GetsWhileOut
	a.Puts += b.Puts
	a.Drops += b.Drops
	a.Flushes += b.Flushes
	a.FlushedPrinters += b.FlushedPrinters
	a.Abandoned += b.Abandoned
	if b.MaxOut > a.MaxOut {
		a.MaxOut = b.MaxOut
	}
	a.PoisonedBytes += b.PoisonedBytes
}

type sim struct {
	plan  *Plan
	tasks []*task
	sp    pipe

	idle   []*prec // most recently put first
	byPtr  map[*hooks.Printer]*prec
	nextID int
	out    int
	outBy  []int

	forced *task
	prev   *task
	reqOp  int // op index reported with the request being handled

	events   int
	switches int
	yields   [nYieldKinds]int
	pool     poolStats
	viol     []Violation
	log      *strings.Builder // nil unless event logging is on
	trace    uint64           // running hash of the schedule trace
	progress uint64           // watchdog counter (norace)
}

// current is the task that holds the baton (nil in reference mode).
// Accessed only from norace functions.
var current *task

//go:norace
func curTask() *task { return current }

//go:norace
func setCurrent(t *task) { current = t }

// ---- task side ---------------------------------------------------------

// call hands the baton to the scheduler with a request and parks until
// the scheduler resumes this task.
//
//go:norace
func (t *task) call(kind, arg int, ptr unsafe.Pointer) {
	t.mbKind, t.mbArg, t.mbPtr = kind, arg, ptr
	t.sim.sp.signal()
	t.pipe.wait()
}

// last hands the baton to the scheduler for good.
//
//go:norace
func (t *task) last(kind int) {
	t.mbKind, t.mbArg, t.mbPtr = kind, 0, nil
	t.sim.sp.signal()
}

//go:norace
func (t *task) response() (unsafe.Pointer, unsafe.Pointer, int) {
	return t.rsPtr, t.rsRec, t.rsInt
}

func (t *task) yield(kind int) { t.call(reqYield, kind, nil) }

// ---- scheduler side ----------------------------------------------------

//go:norace
func (s *sim) resume(t *task) (kind, arg int, ptr unsafe.Pointer) {
	current = t
	s.progress++
	t.pipe.signal()
	s.sp.wait()
	return t.mbKind, t.mbArg, t.mbPtr
}

//go:norace
func (s *sim) respond(t *task, p unsafe.Pointer, rec unsafe.Pointer, i int) {
	t.rsPtr, t.rsRec, t.rsInt = p, rec, i
}

func (t *task) nextTape() int {
	if t.tapePos < len(t.tape) {
		v := t.tape[t.tapePos]
		t.tapePos++
		if v < 0 {
			v = -v
		}
		return v
	}
	return 0
}

func (s *sim) logf(format string, a ...interface{}) {
	if s.log != nil {
		fmt.Fprintf(s.log, format, a...)
		s.log.WriteByte('\n')
	}
}

func (s *sim) mix(a, b, c int) {
	h := s.trace
	for _, x := range [...]int{a, b, c} {
		h ^= uint64(x) + 0x9e3779b97f4a7c15 + (h << 6) + (h >> 2)
	}
	s.trace = h
}

// pick decides who runs next. The decision is read from the tape of
// the task that just gave up the baton: 0 = keep running it.
func (s *sim) pick() *task {
	if s.forced != nil {
		t := s.forced
		s.forced = nil
		return t
	}
	var live []*task
	for _, t := range s.tasks {
		if !t.done {
			live = append(live, t)
		}
	}
	if len(live) == 0 {
		return nil
	}
	v := 0
	if s.prev != nil {
		v = s.prev.nextTape()
	}
	if v == 0 {
		if s.prev != nil && !s.prev.done {
			return s.prev
		}
		return live[0]
	}
	return live[(v-1)%len(live)]
}

func (s *sim) violate(inv string, t *task, detail string) {
	s.viol = append(s.viol, Violation{Prop: "C12", Invariant: inv, Task: t.id, OpIdx: s.reqOp, Detail: detail})
}

func (s *sim) handleGet(t *task, fresh *hooks.Printer) {
	v := t.nextTape()
	var rec *prec
	recycled := 0
	if v == 0 || len(s.idle) == 0 {
		rec = &prec{id: s.nextID, p: fresh, holder: t.id, lastPutBy: -1, sh: new(pshared)}
		s.nextID++
		if old := s.byPtr[fresh]; old != nil && old.state != 2 {
			// The real pool's New handed out an object the simulator
			// already knows and has not dropped.
			s.violate("pool-new-returns-known-printer", t, fmt.Sprintf("printer #%d", old.id))
		}
		s.byPtr[fresh] = rec
		s.pool.GetsFresh++
		s.logf("get t%d p%d fresh", t.id, rec.id)
	} else {
		i := (v - 1) % len(s.idle)
		rec = s.idle[i]
		s.idle = append(s.idle[:i:i], s.idle[i+1:]...)
		if rec.state == 0 {
			// only possible after a double put (see handlePut)
			s.violate("pool-double-handout", t, fmt.Sprintf("printer #%d handed to task %d while task %d still holds it", rec.id, t.id, rec.holder))
			s.out--
			s.outBy[rec.holder]--
		}
		recycled = 1
		if rec.lastPutBy == t.id {
			s.pool.GetsRecycledSame++
		} else {
			s.pool.GetsRecycledX++
		}
		s.logf("get t%d p%d recycled(from t%d)", t.id, rec.id, rec.lastPutBy)
	}
	if s.outBy[t.id] > 0 {
		s.pool.GetsWhileOut++
	}
	rec.state = 0
	rec.holder = t.id
	s.out++
	s.outBy[t.id]++
	if s.out > s.pool.MaxOut {
		s.pool.MaxOut = s.out
	}
	s.mix(1, t.id, rec.id)
	s.respond(t, unsafe.Pointer(rec.p), unsafe.Pointer(rec.sh), rec.id*2+recycled)
}

func (s *sim) handlePut(t *task, p *hooks.Printer) {
	rec := s.byPtr[p]
	if rec == nil {
		s.violate("pool-put-of-unknown-printer", t, "a printer that was never handed out by the pool was put")
		rec = &prec{id: s.nextID, p: p, sh: new(pshared)}
		s.nextID++
		s.byPtr[p] = rec
	} else if rec.state != 0 {
		s.violate("pool-double-put", t, fmt.Sprintf("printer #%d put while not handed out (state %d)", rec.id, rec.state))
		// A real sync.Pool accepts the second Put and will hand the same
		// object to two callers; do the same, so that the consequences
		// play out for the other oracles (and properties) as well.
		s.idle = append([]*prec{rec}, s.idle...)
		s.pool.Puts++
		return
	} else {
		s.out--
		s.outBy[rec.holder]--
	}
	v := t.nextTape()
	s.pool.Puts++
	rec.lastPutBy = t.id
	switch v % 8 {
	case 1:
		rec.state = 2
		s.pool.Drops++
		s.logf("put t%d p%d drop", t.id, rec.id)
	case 2:
		for _, r := range s.idle {
			r.state = 2
		}
		s.pool.Flushes++
		s.pool.FlushedPrinters += len(s.idle)
		s.idle = s.idle[:0]
		rec.state = 1
		s.idle = append(s.idle, rec)
		s.logf("put t%d p%d flush+keep", t.id, rec.id)
	default:
		rec.state = 1
		s.idle = append([]*prec{rec}, s.idle...)
		s.logf("put t%d p%d keep", t.id, rec.id)
	}
	s.mix(2, t.id, rec.id)
	s.yields[yAfterPut]++
}

// run drives all tasks to completion.
func (s *sim) run() {
	for {
		t := s.pick()
		if t == nil {
			break
		}
		if s.prev != t {
			s.switches++
		}
		if t.hasPending {
			// the pool decision is taken now, against the idle list as it
			// is at the moment the task actually proceeds
			s.handleGet(t, t.pendingGet)
			t.pendingGet, t.hasPending = nil, false
		}
		kind, arg, ptr := s.resume(t)
		s.events++
		s.prev = t
		switch kind {
		case reqYield:
			if arg >= 0 && arg < nYieldKinds {
				s.yields[arg]++
			}
			s.mix(3, t.id, arg)
			s.logf("yield t%d %s", t.id, yieldNames[arg])
		case reqGet:
			s.reqOp = arg
			t.pendingGet, t.hasPending = (*hooks.Printer)(ptr), true
			s.yields[yBeforeGet]++
		case reqPut:
			s.reqOp = arg
			s.handlePut(t, (*hooks.Printer)(ptr))
		case reqDone:
			t.done = true
			s.mix(4, t.id, 0)
			s.logf("done t%d", t.id)
		default:
			panic(fmt.Sprintf("scheduler: bad request %d from task %d", kind, t.id))
		}
	}
	// Final phase: every task re-verifies what it holds, one at a time,
	// after everything else has happened.
	for _, t := range s.tasks {
		kind, _, _ := s.resume(t)
		if kind != reqFinal {
			panic("scheduler: expected final")
		}
		s.logf("final t%d", t.id)
	}
	for _, r := range s.byPtr {
		if r.state == 0 {
			s.pool.Abandoned++
		}
	}
}

// ---- the pool seam (runs on task goroutines, or on the main goroutine
// in reference mode) ---------------------------------------------------

func poolGetHook(fresh *hooks.Printer) *hooks.Printer {
	if freeMode {
		return fresh // whatever the real pool handed out
	}
	t := curTask()
	if t == nil {
		refEnv.refGets++
		return fresh
	}
	e := t.env
	// one request: a yield point (others may run now), then the pool
	// decision, taken when this task is resumed
	t.call(reqGet, e.opIdx, unsafe.Pointer(fresh))
	pp, rp, ri := t.response()
	p := (*hooks.Printer)(pp)
	sh := (*pshared)(rp)
	if ri&1 != 0 {
		atomic.LoadUint32(&sh.sync) // acquire: pairs with the putter's release
		if fp := fingerprint(p); fp != sh.fpAtPut {
			e.violate("C12", "idle-printer-modified", fmt.Sprintf("printer #%d changed between its put and its next get", ri/2))
		}
		e.noteHistory(sh.lastClass - 1)
	} else {
		e.noteHistory(-1)
	}
	e.holding++
	e.shOf[p] = sh
	return p
}

func poolPutHook(p *hooks.Printer) bool {
	if freeMode {
		return false // let the real pool have it
	}
	t := curTask()
	if t == nil {
		refEnv.refPuts++
		return true // reference mode: drop
	}
	e := t.env
	st := hooks.State(p)
	e.notePutState(&st)
	if !t.sim.plan.Cfg.NoPoison {
		e.stats.PoisonedBytes += hooks.PoisonSpare(p, 0xA5)
	}
	// publish, then hand the printer to the pool: Put(x) synchronises
	// before the Get that returns x
	if sh := e.shOf[p]; sh != nil {
		delete(e.shOf, p)
		sh.fpAtPut = fingerprint(p)
		sh.lastClass = e.curClass + 1
		sh.puts++
		atomic.StoreUint32(&sh.sync, uint32(sh.puts)) // release
	}
	e.holding--
	// one request: the put, which is also a yield point
	t.call(reqPut, e.opIdx, unsafe.Pointer(p))
	return true
}

// fingerprint hashes everything observable about an idle printer.
func fingerprint(p *hooks.Printer) uint64 {
	st := hooks.State(p)
	h := fnv.New64a()
	fmt.Fprintf(h, "%d %v %v %d %d %d %v %v %v %v %v %v %d %d %d %v %d|",
		st.Override, st.ArgNil, st.ValueValid, st.Flags, st.Wid, st.Prec, st.Reordered,
		st.GoodArgNum, st.Panicking, st.Erroring, st.WrapErrs, st.WrappedErr,
		st.BufLen, st.BufCap, st.BufMode, st.BufOpen, st.BufValid)
	h.Write(st.BufCapBytes)
	return h.Sum64()
}
