module verif/sim

go 1.21

require github.com/cockroachdb/redact v0.0.0

replace github.com/cockroachdb/redact => /repo
