package main

// The supplementary free-running leg (DESIGN.md §10, last item): the
// same plans, executed by free-running goroutines on the REAL
// sync.Pool under the real Go scheduler (race build, GOMAXPROCS=16),
// with the same schedule-independent oracles (every op's outcome
// equals its isolated reference; returned values never change). It is
// a cross-check of the SimPool stub, sound under any schedule and
// therefore never a false alarm, but it is runtime monitoring of
// uncontrolled executions: it decides nothing on its own. Whatever it
// sees is re-searched under the simulator by the driver.

import (
	"encoding/json"
	"flag"
	"fmt"
	"os"
	"reflect"
	"runtime"
	"sync"
	"time"

	"github.com/cockroachdb/redact"
)

// freeMode makes the pool seam a pass-through and makes curEnv look the
// environment up by goroutine. Written by the main goroutine while no
// task goroutine exists.
var freeMode bool

var freeEnvs sync.Map // goroutine id -> *env

func goid() int64 {
	var buf [64]byte
	n := runtime.Stack(buf[:], false)
	// "goroutine 123 [running]:"
	var id int64
	for i := len("goroutine "); i < n && buf[i] >= '0' && buf[i] <= '9'; i++ {
		id = id*10 + int64(buf[i]-'0')
	}
	return id
}

func freeEnvOf() *env {
	if v, ok := freeEnvs.Load(goid()); ok {
		return v.(*env)
	}
	return refEnv
}

type FreeStats struct {
	Runs       int              `json:"runs"`
	Ops        int              `json:"ops"`
	Mismatches []FoundViolation `json:"mismatches,omitempty"`
	RaceSeeds  []int64          `json:"race_seeds,omitempty"`
	WallS      float64          `json:"wall_s"`
}

// executeFree runs one plan free-running and returns the violations of
// the schedule-independent oracles.
func executeFree(plan *Plan) (viol []Violation, ops int) {
	installHooks()
	freeMode = false
	// earlier free-running plans left printers in the real pool; two GC
	// cycles empty it, so that the reference really runs on fresh printers
	runtime.GC()
	runtime.GC()
	buildShared(plan)
	exp, _ := reference(plan)
	var sinkCh chan handoff
	if plan.Cfg.Sink {
		sinkCh = make(chan handoff, 1<<14)
	}
	envs := make([]*env, len(plan.Tasks))
	for ti := range plan.Tasks {
		t := &task{id: ti}
		e := newEnv(plan, t)
		t.env = e
		e.expected = exp[ti]
		e.sinkCh = sinkCh
		envs[ti] = e
	}
	if plan.Cfg.LateReg > 0 {
		lateRegCounter++
		redact.RegisterSafeType(reflect.TypeOf(lateRegValue()))
	}
	freeMode = true
	var wg, ready sync.WaitGroup
	start := make(chan struct{})
	for ti := range plan.Tasks {
		wg.Add(1)
		ready.Add(1)
		e := envs[ti]
		ops := plan.Tasks[ti].Ops
		go func() {
			defer wg.Done()
			id := goid()
			freeEnvs.Store(id, e)
			defer freeEnvs.Delete(id)
			ready.Done()
			<-start
			for i := range ops {
				e.runOpSim(i, &ops[i])
			}
		}()
	}
	var sinkGot []handoff
	sinkDone := make(chan struct{})
	stopSink := make(chan struct{})
	if sinkCh != nil {
		go func() {
			defer close(sinkDone)
			reread := func() {
				for i := range sinkGot {
					h := &sinkGot[i]
					if h.b != nil {
						_ = hashBytes(h.b)
					} else {
						_ = hashString(h.s)
					}
				}
			}
			for {
				select {
				case h := <-sinkCh:
					sinkGot = append(sinkGot, h)
					reread()
				case <-stopSink:
					reread()
					return
				}
			}
		}()
	}
	ready.Wait()
	close(start)
	wg.Wait()
	if sinkCh != nil {
		close(stopSink)
		<-sinkDone
	}
	freeMode = false
	for _, e := range envs {
		e.recheck(0, e.immutabilityProp())
		viol = append(viol, e.viol...)
		ops += e.stats.Ops
	}
	for i := range sinkGot {
		h := &sinkGot[i]
		now := h.h
		if h.b != nil {
			now = hashBytes(h.b)
		} else {
			now = hashString(h.s)
		}
		if now != h.h {
			viol = append(viol, Violation{Prop: plan.Prop, Invariant: "handed-over-value-modified", Task: h.from, OpIdx: h.op, Detail: h.what + " changed after it was handed to the sink"})
		}
	}
	return viol, ops
}

func cmdFree(args []string) {
	fs := flag.NewFlagSet("free", flag.ExitOnError)
	prop := fs.String("prop", "C12", "")
	seed := fs.Int64("seed", 1, "")
	n := fs.Int("n", 100, "")
	tier := fs.String("tier", "thorough", "")
	maxSec := fs.Float64("maxsec", 0, "")
	outPath := fs.String("out", "", "")
	fs.Parse(args)
	start := time.Now()
	var st FreeStats
	for i := 0; i < *n; i++ {
		if *maxSec > 0 && time.Since(start).Seconds() > *maxSec {
			break
		}
		sd := *seed + int64(i)
		plan := generate(*prop, sd, *tier)
		before := raceLogSize()
		viol, ops := executeFree(plan)
		st.Runs++
		st.Ops += ops
		if raceLogSize() > before {
			st.RaceSeeds = append(st.RaceSeeds, sd)
		}
		for _, v := range viol {
			if len(st.Mismatches) < 20 {
				st.Mismatches = append(st.Mismatches, FoundViolation{Seed: sd, V: v})
			}
		}
	}
	st.WallS = time.Since(start).Seconds()
	b, _ := json.Marshal(st)
	if *outPath != "" {
		os.WriteFile(*outPath, b, 0o644)
	} else {
		fmt.Println(string(b))
	}
}
