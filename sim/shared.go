package main

// Shared operands (C12). Real callers hand the same read-only value to
// print calls on several goroutines at once: fields of one record, a
// finished StringBuilder, a map. Each call has its own destination, so
// C12's "free of data races" applies; the library may only READ its
// operands. A plan lists up to three shared values (Plan.Shared); they
// are built once per run, before the reference execution, and operands
// of kind "shared" refer to them by index. Two oracles:
//
//   - a fingerprint of every byte the value can reach (for a sub-slice
//     the whole record it was cut from, for a builder its hidden state
//     and its backing array up to the capacity) is taken when the value
//     is built and compared after the reference execution and after the
//     simulated run: any difference is a write to caller-owned memory;
//   - in race-monitored runs the race detector sees the same write as
//     racing with the other tasks' reads, whatever the bytes are.

import (
	"fmt"
	"strings"

	"github.com/cockroachdb/redact"
)

type sharedObj struct {
	val  interface{}
	kind string
	fp   func() string
}

var sharedObjs []sharedObj
var sharedPristine []string

type verifStater interface {
	VerifState() (mode int, markerOpen bool, validUntil, length, capacity int, backing []byte)
}

func buildShared(plan *Plan) {
	sharedObjs = sharedObjs[:0]
	sharedPristine = sharedPristine[:0]
	for i := range plan.Shared {
		o := buildSharedOne(&plan.Shared[i])
		sharedObjs = append(sharedObjs, o)
		sharedPristine = append(sharedPristine, o.fp())
	}
}

func buildSharedOne(v *Val) sharedObj {
	switch v.K {
	case "sbval":
		// a builder whose envelope is open and that has room to spare
		sb := new(redact.StringBuilder)
		sb.Grow(int(v.I))
		sb.SafeString(redact.SafeString(v.S))
		sb.UnsafeString(string(v.R))
		fp := func() string {
			mode, open, valid, l, c, backing := sb.VerifState()
			return fmt.Sprintf("mode=%d open=%v valid=%d len=%d cap=%d backing=%x", mode, open, valid, l, c, hashBytes(backing))
		}
		if len(v.V) > 0 && v.V[0].I == 1 {
			return sharedObj{val: sb, kind: "*StringBuilder", fp: fp}
		}
		return sharedObj{val: *sb, kind: "StringBuilder", fp: fp}
	case "argslist":
		// an argument list, passed as args... (values.go, buildAll)
		var e0 env
		e0.defs = map[int]*Val{}
		list := make([]interface{}, len(v.V))
		for i := range v.V {
			list[i] = e0.build(&v.V[i])
		}
		return sharedObj{val: list, kind: "argument list", fp: func() string {
			var sb strings.Builder
			for _, x := range list {
				fmt.Fprintf(&sb, "%T=%+v;", x, x)
			}
			return sb.String()
		}}
	case "mbval":
		// a ManualBuffer (a Stringer) with pending unsafe text and room to spare
		mb := new(redact.ManualBuffer)
		mb.Grow(int(v.I))
		mb.WriteString(string(v.S))
		mb.SetMode(1) // safe, escaped
		mb.WriteString(string(v.R))
		mb.SetMode(0) // unsafe, escaped: an envelope opens with the next write
		mb.WriteString(string(v.S))
		fp := func() string {
			mode, open, valid, l, c, backing := mb.VerifState()
			return fmt.Sprintf("mode=%d open=%v valid=%d len=%d cap=%d backing=%x", mode, open, valid, l, c, hashBytes(backing))
		}
		if len(v.V) > 0 && v.V[0].I == 1 {
			return sharedObj{val: mb, kind: "*ManualBuffer", fp: fp}
		}
		return sharedObj{val: *mb, kind: "ManualBuffer", fp: fp}
	default: // "subbytes"
		record := []byte(v.S)
		lo, hi := 0, len(record)
		if len(v.V) >= 2 {
			lo, hi = int(v.V[0].I), int(v.V[1].I)
		}
		if hi > len(record) {
			hi = len(record)
		}
		if lo > hi {
			lo = hi
		}
		fp := func() string { return fmt.Sprintf("record=%x", record) }
		field := record[lo:hi]
		switch v.I {
		case 1:
			return sharedObj{val: []interface{}{field, "x", 5}, kind: "[]interface{} holding a []byte field", fp: fp}
		case 2:
			return sharedObj{val: map[string]interface{}{"k": field}, kind: "map holding a []byte field", fp: fp}
		case 3:
			return sharedObj{val: redact.RedactableBytes(field), kind: "RedactableBytes field", fp: fp}
		case 4:
			var arr [16]byte
			copy(arr[:], record)
			pa := &arr
			return sharedObj{val: pa, kind: "*[16]byte", fp: func() string { return fmt.Sprintf("array=%x", pa[:]) }}
		case 5:
			return sharedObj{val: simBytes(field), kind: "named []byte field", fp: fp}
		case 6:
			// deliberately not sorted: Join and JoinTo must leave the order alone
			rss := []redact.RedactableString{"z ‹b›", redact.RedactableString(redact.EscapeBytes(field)), "a", "‹m›"}
			return sharedObj{val: rss, kind: "[]RedactableString", fp: func() string { return fmt.Sprintf("%q", rss) }}
		case 7:
			ss := []string{"z", string(field), "a"}
			return sharedObj{val: ss, kind: "[]string", fp: func() string { return fmt.Sprintf("%q", ss) }}
		}
		return sharedObj{val: field, kind: "[]byte field of a record", fp: fp}
	}
}

// simBytes: a named byte-slice type without methods.
type simBytes []byte

func sharedIsArgs(i int64) bool {
	if len(sharedObjs) == 0 {
		return false
	}
	if i < 0 {
		i = -i
	}
	return sharedObjs[int(i)%len(sharedObjs)].kind == "argument list"
}

func sharedVal(i int64) interface{} {
	if len(sharedObjs) == 0 {
		return nil
	}
	if i < 0 {
		i = -i
	}
	return sharedObjs[int(i)%len(sharedObjs)].val
}

// checkShared compares every shared value with its fingerprint at
// construction; a value is reported once.
func checkShared(where string) (viol []Violation) {
	for i := range sharedObjs {
		now := sharedObjs[i].fp()
		if now != sharedPristine[i] {
			viol = append(viol, Violation{Prop: "C12", Invariant: "shared-operand-modified", Class: sharedObjs[i].kind, Task: -1, OpIdx: -1,
				Detail:   fmt.Sprintf("shared operand %d (%s), which print calls may only read, was written to [%s]", i, sharedObjs[i].kind, where),
				Expected: clip(sharedPristine[i]), Actual: clip(now)})
			sharedPristine[i] = now
		}
	}
	return viol
}

// ---- generation ---------------------------------------------------------

// argsSpec: a short list of plain operands, with wrapped integers where a
// '*' may look for its width.
func (g *gen) argsSpec() Val {
	wrapInt := func() Val {
		return Val{K: g.pick([]string{"safe", "unsafe"}), V: []Val{{K: "int", I: int64(2 + g.r.Intn(12))}}}
	}
	v := Val{K: "argslist"}
	for i, n := 0, 2+g.r.Intn(3); i < n; i++ {
		switch g.r.Intn(5) {
		case 0:
			v.V = append(v.V, wrapInt())
		case 1:
			v.V = append(v.V, Val{K: "int", I: int64(2 + g.r.Intn(12))})
		case 2:
			v.V = append(v.V, Val{K: g.pick([]string{"safe", "unsafe"}), V: []Val{{K: "str", S: Str(g.lit())}}})
		default:
			v.V = append(v.V, g.simple2())
		}
	}
	// (short: the list is printed by many ops of many tasks)
	st := &sites{}
	for i := range v.V {
		st.walkVal(&v.V[i])
	}
	for _, x := range st.strs {
		if len(*x) > 150 {
			*x = (*x)[:150]
		}
	}
	return v
}

var argsFormats = []string{"%v %v", "%[1]v|%[1]*[2]v|", "%*v|%v", "%.*v|", "%[2]*[1]v|%v", "%-*v|%v", "%v %d %s", "%[1]*v", "%v%[2]*[1]d|", "%+v %#v", "%*.*v|"}

func (g *gen) sharedSpec() Val {
	if g.chance(0.12) {
		v := Val{K: "mbval", I: int64([]int{0, 8, 64, 200}[g.r.Intn(4)]), S: Str(g.lit()), R: Str(g.payload())}
		if len(v.S) > 100 {
			v.S = v.S[:100]
		}
		if len(v.R) > 100 {
			v.R = v.R[:100]
		}
		if g.chance(0.3) {
			v.V = []Val{{K: "int", I: 1}}
		}
		return v
	}
	if g.chance(0.3) {
		v := Val{K: "sbval", I: int64([]int{0, 8, 64, 200}[g.r.Intn(4)]), S: Str(g.lit()), R: Str(g.payload())}
		if g.chance(0.3) {
			v.V = []Val{{K: "int", I: 1}}
		}
		return v
	}
	// (short: JoinTo prints a []byte element by element)
	record := g.payload()
	if len(record) > 120 {
		record = record[:120]
	}
	record += "0123456789abcdef"
	lo := g.r.Intn(4)
	hi := lo + 1 + g.r.Intn(8)
	if g.chance(0.25) {
		lo, hi = 0, len(record)
	}
	return Val{K: "subbytes", S: Str(record), I: int64(g.r.Intn(8)), V: []Val{{K: "int", I: int64(lo)}, {K: "int", I: int64(hi)}}}
}

var sharedFormats = []string{"%-12s|", "%-9.3s|", "%s", "%v", "%x", "%q", "%-20v|", "% x", "%10s|", "%-6d|", "%+v", "%-*s|", "%.4s", "%-30q|", "%X", "%#v"}

// sharedOp prints one shared value, alone or among other operands.
func (g *gen) sharedOp(depth int) Op {
	sh := Val{K: "shared", I: int64(g.r.Intn(g.shared))}
	if g.sharedArgs[int(sh.I)] {
		// the whole argument list is the shared value
		switch g.r.Intn(6) {
		case 0:
			return Op{K: "sprint", A: []Val{sh}}
		case 1:
			return Op{K: "fprintf", F: Str(g.lit() + g.pick(argsFormats)), A: []Val{sh}, W: g.writer(depth)}
		case 2:
			return Op{K: "errorf", F: Str(g.lit() + g.pick(argsFormats)), A: []Val{sh}}
		default:
			return Op{K: "sprintf", F: Str(g.lit() + g.pick(argsFormats)), A: []Val{sh}}
		}
	}
	switch g.r.Intn(7) {
	case 5:
		return Op{K: "jointo", F: Str(g.redactableLit()), A: []Val{sh}, Dst: g.safeScriptNoCtl(g.r.Intn(2))}
	case 6:
		return Op{K: "join", F: Str(g.redactableLit()), A: []Val{sh}}
	case 0:
		a := []Val{sh}
		if g.chance(0.4) {
			a = append(a, g.simple())
		}
		return Op{K: "sprint", A: a}
	case 1:
		return Op{K: "fprintf", F: Str(g.lit() + "%" + g.pick(verbsCommon)), A: []Val{sh}, W: g.writer(depth)}
	default:
		f := g.pick(sharedFormats)
		a := []Val{sh}
		if f == "%-*s|" {
			a = []Val{{K: "int", I: int64(4 + g.r.Intn(20))}, sh}
		}
		return Op{K: "sprintf", F: Str(g.lit() + f), A: a}
	}
}
