package main

// A small, independent parser for redactable strings (no regexp, no
// library code): a sequence of safe text and ‹unsafe› envelopes.

import "strings"

const (
	mStart = "‹" // ‹
	mEnd   = "›" // ›
)

type seg struct {
	unsafe bool
	text   string
}

// segs parses s into maximal segments; adjacent envelopes are merged
// (this is the normalisation N of the design: ›‹ → ε) and empty
// segments are dropped. ok is false when markers do not alternate.
func segs(s string) (out []seg, ok bool) {
	ok = true
	open := false
	add := func(unsafe bool, text string) {
		if text == "" {
			return
		}
		if n := len(out); n > 0 && out[n-1].unsafe == unsafe {
			out[n-1].text += text
		} else {
			out = append(out, seg{unsafe, text})
		}
	}
	start := 0
	for i := 0; i < len(s); {
		k := strings.IndexByte(s[i:], mStart[0])
		if k < 0 {
			break
		}
		i += k
		switch {
		case strings.HasPrefix(s[i:], mStart):
			if open {
				ok = false
			}
			add(open, s[start:i])
			open = true
			i += len(mStart)
			start = i
		case strings.HasPrefix(s[i:], mEnd):
			if !open {
				ok = false
			}
			add(open, s[start:i])
			open = false
			i += len(mEnd)
			start = i
		default:
			i++
		}
	}
	if open {
		ok = false
	}
	add(open, s[start:])
	return out, ok
}

func mergeSegs(in []seg) []seg {
	var out []seg
	for _, s := range in {
		if s.text == "" {
			continue
		}
		if n := len(out); n > 0 && out[n-1].unsafe == s.unsafe {
			out[n-1].text += s.text
		} else {
			out = append(out, s)
		}
	}
	return out
}

func segsString(ss []seg) string {
	var sb strings.Builder
	for _, s := range ss {
		if s.unsafe {
			sb.WriteString(mStart + s.text + mEnd)
		} else {
			sb.WriteString(s.text)
		}
	}
	return sb.String()
}

// normalize returns the canonical spelling of a redactable string
// (adjacent envelopes merged, empty envelopes dropped).
func normalize(s string) string {
	ss, _ := segs(s)
	return segsString(ss)
}

func redactableStrip(s string) string {
	s = strings.ReplaceAll(s, mStart, "")
	return strings.ReplaceAll(s, mEnd, "")
}

// safeText returns the concatenation of the safe segments.
func safeText(s string) string {
	ss, _ := segs(s)
	var sb strings.Builder
	for _, x := range ss {
		if !x.unsafe {
			sb.WriteString(x.text)
		}
	}
	return sb.String()
}
