package main

// Builder sessions: sequences of calls on one StringBuilder or
// ManualBuffer, with accessor calls and restarts anywhere.

import (
	"fmt"

	"github.com/cockroachdb/redact"
)

// bufLike is what StringBuilder and ManualBuffer have in common.
type bufLike interface {
	Len() int
	Cap() int
	String() string
	RedactableString() redact.RedactableString
	RedactableBytes() redact.RedactableBytes
	TakeRedactableString() redact.RedactableString
	TakeRedactableBytes() redact.RedactableBytes
	Reset()
	Write([]byte) (int, error)
	WriteString(string) (int, error)
	WriteByte(byte) error
	WriteRune(rune) error
	Grow(int)
	VerifState() (mode int, markerOpen bool, validUntil, length, capacity int, backing []byte)
	VerifPoison(c byte) int
}

type session struct {
	e     *env
	b     bufLike
	sb    *redact.StringBuilder // nil for a ManualBuffer
	mb    *redact.ManualBuffer
	out   *Outcome
	snaps []string // every RedactableString snapshot taken, in order
	quiet bool     // do not record accessor results
}

func (e *env) newBuilderSession(out *Outcome) *session {
	sb := &redact.StringBuilder{}
	return &session{e: e, b: sb, sb: sb, out: out}
}

func (e *env) newManualSession(out *Outcome) *session {
	mb := &redact.ManualBuffer{}
	return &session{e: e, b: mb, mb: mb, out: out}
}

// absState abstracts the hidden buffer state (reach measurement only).
func (s *session) absState() string {
	mode, open, valid, l, c, backing := s.b.VerifState()
	spare := c - l
	sp := ">=3"
	if spare == 0 {
		sp = "0"
	} else if spare < 3 {
		sp = "<3"
	}
	last := "empty"
	if l > 0 {
		switch b := backing[l-1]; {
		case b == '\n':
			last = "nl"
		case b == ' ':
			last = "sp"
		case b >= 0x80:
			last = "hi"
		default:
			last = "ascii"
		}
	}
	return fmt.Sprintf("mode=%d open=%v pending=%v spare=%s last=%s", mode, open, valid < l, sp, last)
}

func (s *session) note(what string) {
	s.e.stats.AbsStates[what+" @ "+s.absState()]++
}

func (s *session) step(st *Step) {
	e := s.e
	switch st.A {
	case "wr":
		s.b.Write([]byte(st.S))
	case "wS":
		s.b.WriteString(string(st.S))
	case "wb":
		s.b.WriteByte(byte(st.I))
	case "wR":
		s.b.WriteRune(rune(st.I))
	case "len":
		s.note("Len")
		n := s.b.Len()
		if !s.quiet {
			s.out.Extra = append(s.out.Extra, fmt.Sprintf("len=%d", n))
		}
	case "cap":
		s.note("Cap")
		_ = s.b.Cap()
	case "str":
		s.note("String")
		x := s.b.String()
		e.holdString(x, "String()")
		if !s.quiet {
			s.out.Extra = append(s.out.Extra, "str="+x)
		}
	case "rstr":
		s.note("RedactableString")
		x := string(s.b.RedactableString())
		s.snaps = append(s.snaps, x)
		e.holdString(x, "RedactableString()")
		e.handoffString(x, "RedactableString()")
		if !s.quiet {
			s.out.Extra = append(s.out.Extra, "rstr="+x)
		}
	case "rbytes":
		s.note("RedactableBytes")
		x := s.b.RedactableBytes()
		if !s.quiet {
			s.out.Extra = append(s.out.Extra, "rbytes="+string(x))
		}
	case "mode":
		s.note("GetMode")
		var m int
		if s.sb != nil {
			m = int(s.sb.GetMode())
		} else {
			m = int(s.mb.GetMode())
		}
		if !s.quiet {
			s.out.Extra = append(s.out.Extra, fmt.Sprintf("mode=%d", m))
		}
	case "reset":
		s.note("Reset")
		e.fired(fRestart)
		s.b.Reset()
	case "takes":
		s.note("TakeRedactableString")
		e.fired(fRestart)
		x := string(s.b.TakeRedactableString())
		e.holdString(x, "TakeRedactableString()")
		e.handoffString(x, "TakeRedactableString()")
		s.out.Extra = append(s.out.Extra, "takes="+x)
	case "takeb":
		s.note("TakeRedactableBytes")
		e.fired(fRestart)
		x := s.b.TakeRedactableBytes()
		s.out.Extra = append(s.out.Extra, "takeb="+string(x))
		// the caller owns what it took, spare capacity included: appending
		// to it must neither disturb the object nor be disturbed by it
		x = append(x, " +appended by the caller"...)
		e.holdBytes(x, "TakeRedactableBytes() result, appended to by the caller")
		e.handoffBytes(x, "TakeRedactableBytes()")
	case "poison":
		e.stats.PoisonedBytes += s.b.VerifPoison(0x5A)
	case "y":
		e.yield(ySession)
	case "setmode":
		s.setMode(st.I)
	case "mw": // ManualBuffer: SetMode then WriteString
		s.setMode(st.I)
		s.mb.WriteString(string(st.S))
	case "mwb":
		s.setMode(st.I % 2)
		s.mb.WriteByte(byte(st.I / 2))
	case "mwr":
		s.setMode(st.I % 2)
		s.mb.WriteRune(rune(st.I / 2))
	case "grow":
		s.b.Grow(int(st.I))
	default:
		if s.sb != nil {
			e.safeStep(st, s.sb, nil, 'v')
			return
		}
		panic("harness: step " + st.A + " not valid on a ManualBuffer")
	}
}

// setMode: the OutputMode type is not nameable from outside the
// module, but untyped constants convert.
func (s *session) setMode(m int64) {
	switch m {
	case 0:
		s.mb.SetMode(0)
	case 1:
		s.mb.SetMode(1)
	default:
		s.mb.SetMode(2)
	}
}

func init() {
	opKinds["manual"] = func(e *env, op *Op, out *Outcome) {
		s := e.newManualSession(out)
		for i := range op.S {
			s.step(&op.S[i])
		}
		out.Out = string(s.mb.RedactableString())
	}
	opKinds["builder"] = func(e *env, op *Op, out *Outcome) {
		s := e.newBuilderSession(out)
		for i := range op.S {
			s.step(&op.S[i])
		}
		out.Out = string(s.sb.RedactableString())
	}
}
