package main

// Plan generation: a pure function of (property, seed, tier). Swarm
// style: every run draws its own configuration (sizes, op mix, enabled
// fault kinds, yield density, pool temper, payload alphabet weights).

import (
	"math/rand"
	"strings"
)

type gen struct {
	r      *rand.Rand
	nextID int
	// swarm knobs
	yieldDensity float64
	panicRate    float64
	reenterRate  float64
	maxDepth     int
	bigRate      float64
	alphabet     []string
	kindsOff     map[string]bool
	writerFaults float64
	thorough     bool
	shared       int // number of shared values of the plan (shared.go)
	sharedPtr    []bool
	sharedArgs   []bool // the shared value is a whole argument list
	typeStorm    bool   // many operands of many distinct Go types (per-type caches fill and turn over)
}

var basePieces = []string{
	"abc", "x", "hello world", " ", "\n", "a\nb", "‹", "›", "‹x›", "›‹", "×", "‹×›", "?", "é", "日本",
	"\xe2", "\x80", "\xb9", "\xba", "\xe2\x80", "\xe2\x80\xb9\xe2\x80", "\x80\xba", "%", "%d", "\x00", "\t", "\"q\"", "\\",
}

func newGen(seed int64, tier string) *gen {
	r := rand.New(rand.NewSource(seed))
	g := &gen{r: r, thorough: tier == "thorough"}
	g.yieldDensity = []float64{0, 0.15, 0.35, 0.6}[r.Intn(4)]
	g.panicRate = []float64{0, 0.05, 0.15, 0.3}[r.Intn(4)]
	g.reenterRate = []float64{0, 0.05, 0.15}[r.Intn(3)]
	g.maxDepth = 1 + r.Intn(3)
	g.bigRate = []float64{0, 0, 0.01, 0.04}[r.Intn(4)]
	g.writerFaults = []float64{0, 0.1, 0.25}[r.Intn(3)]
	g.typeStorm = r.Intn(4) == 0
	// payload alphabet: a random subset of the pieces, with repeats as weights
	n := 3 + r.Intn(len(basePieces))
	for i := 0; i < n; i++ {
		g.alphabet = append(g.alphabet, basePieces[r.Intn(len(basePieces))])
	}
	g.alphabet = append(g.alphabet, "abc")
	g.kindsOff = map[string]bool{}
	return g
}

func (g *gen) chance(p float64) bool { return g.r.Float64() < p }

func (g *gen) pick(xs []string) string { return xs[g.r.Intn(len(xs))] }

func (g *gen) id() int {
	g.nextID++
	return g.nextID
}

func (g *gen) payload() string {
	if g.chance(g.bigRate) {
		return strings.Repeat(g.pick(g.alphabet)+"0123456789abcdef", 4200+g.r.Intn(300)) // > 64 KiB
	}
	if g.chance(0.04) {
		// nothing at all: an unsafe write of nothing still opens an envelope
		return ""
	}
	n := 1 + g.r.Intn(3)
	var sb strings.Builder
	for i := 0; i < n; i++ {
		sb.WriteString(g.pick(g.alphabet))
	}
	if g.chance(0.06) {
		// a length right at a capacity boundary of the buffer (initial
		// capacity, its doublings, and a few bytes either side)
		want := []int{64, 128, 256, 512}[g.r.Intn(4)] - 4 + g.r.Intn(8)
		for sb.Len() < want {
			sb.WriteString(g.pick(g.alphabet))
			sb.WriteString("0123456789abcdef"[:1+g.r.Intn(15)])
		}
		return sb.String()[:want]
	}
	return sb.String()
}

// safeLit returns text suitable as a format literal (no '%').
func (g *gen) lit() string {
	s := g.payload()
	if len(s) > 200 {
		s = s[:200]
	}
	// ("Pc", not "pc": after a stray '%' the latter would read as the verb
	// %p, which prints addresses for maps, slices and funcs)
	return strings.ReplaceAll(s, "%", "Pc")
}

// redactableLit returns a well-formed redactable string literal.
func (g *gen) redactableLit() string {
	var sb strings.Builder
	n := 1 + g.r.Intn(3)
	clean := func(s string) string {
		if len(s) > 100 {
			s = s[:100]
		}
		s = strings.ReplaceAll(s, mStart, "<")
		s = strings.ReplaceAll(s, mEnd, ">")
		// keep partial marker bytes out: a well-formed redactable is valid enough
		s = strings.ToValidUTF8(s, "?")
		return strings.ReplaceAll(s, "\n", " ")
	}
	for i := 0; i < n; i++ {
		if g.chance(0.5) {
			sb.WriteString(clean(g.payload()))
		} else {
			c := clean(g.payload())
			if c == "" {
				c = "u"
			}
			sb.WriteString(mStart + c + mEnd)
		}
	}
	return sb.String()
}

var simpleKinds = []string{"int", "int", "str", "str", "str", "bytes", "bool", "f64", "i8", "u8", "u64", "rune", "nil", "cplx", "f32", "uint", "i64", "i16", "u16", "u32", "c64", "barr"}
var safeKinds = []string{"sstr", "sint", "suint", "sfloat", "srune", "sbyte", "sbytes", "regsafeint"}
var scriptedList = []string{"stringer", "error", "wraperr", "formatter", "gostringer", "safefmt", "safemsg", "errfmt", "errsafefmt", "errstr", "safeval", "regsafe",
	"liststringer", "maperror", "intstringer", "strformatter"}

func (g *gen) simple() Val {
	k := g.pick(simpleKinds)
	v := Val{K: k}
	switch k {
	case "str", "bytes":
		v.S = Str(g.payload())
		if k == "bytes" {
			v.S = capBytes(v.S)
		}
	case "bool":
		v.I = int64(g.r.Intn(2))
	case "rune":
		v.I = int64([]int{65, 0x203a, 0x2039, 0xe9, -1, 0xd800, 0x110000, 0x65e5, 10}[g.r.Intn(9)])
	case "u8", "i8":
		v.I = int64(g.r.Intn(120))
	case "barr":
		v.S = Str(g.payload())
	case "nil":
	default:
		v.I = int64(g.r.Intn(2000) - 500)
	}
	return v
}

// capBytes bounds a byte-slice operand: a []byte under a bad verb is
// printed element by element, and when the verb is itself a marker rune
// every element makes the escape routine copy the whole buffer - minutes
// for the 70 KiB payloads that strings may have.
func capBytes(s Str) Str {
	if len(s) > 4096 {
		return s[:4096]
	}
	return s
}

// simple2: a simple value that is not nil.
func (g *gen) simple2() Val {
	v := g.simple()
	for v.K == "nil" {
		v = g.simple()
	}
	return v
}

// val generates an operand. top says whether the value is a direct
// argument of a print call (pointers to structs print their address
// anywhere else, which would not be stable across processes).
func (g *gen) val(depth int, top bool) Val {
	if g.typeStorm {
		// many distinct types, and many operands whose treatment depends on
		// a per-type answer (SafeValue implementations)
		switch y := g.r.Intn(100); {
		case y < 45:
			return Val{K: "arrn", I: int64(g.r.Intn(1500))}
		case y < 80:
			k := g.pick(safeKinds)
			v := Val{K: k, I: int64(g.r.Intn(300))}
			if k == "sstr" || k == "sbytes" {
				v.S = Str(g.payload())
				if k == "sbytes" {
					v.S = capBytes(v.S)
				}
			}
			return v
		}
	}
	if g.shared > 0 && g.chance(0.1) {
		if i := g.r.Intn(g.shared); (top || !g.sharedPtr[i]) && !g.sharedArgs[i] {
			return Val{K: "shared", I: int64(i)}
		}
	}
	x := g.r.Intn(100)
	switch {
	case x < 38:
		return g.simple()
	case x < 46:
		k := g.pick(safeKinds)
		v := Val{K: k, I: int64(g.r.Intn(300))}
		if k == "sstr" || k == "sbytes" {
			v.S = Str(g.payload())
			if k == "sbytes" {
				v.S = capBytes(v.S)
			}
		}
		return v
	case x < 52:
		if g.chance(0.5) {
			return Val{K: "rs", S: Str(g.redactableLit())}
		}
		return Val{K: "rb", S: capBytes(Str(g.redactableLit()))}
	case x < 60 && depth < g.maxDepth+1:
		k := "safe"
		if g.chance(0.5) {
			k = "unsafe"
		}
		return Val{K: k, V: []Val{g.val(depth+1, false)}}
	case x < 68 && depth < g.maxDepth+1:
		switch g.r.Intn(7) {
		case 0:
			n := g.r.Intn(4)
			v := Val{K: "slice"}
			for i := 0; i < n; i++ {
				v.V = append(v.V, g.val(depth+1, false))
			}
			return v
		case 1:
			n := g.r.Intn(4)
			v := Val{K: "strs"}
			for i := 0; i < n; i++ {
				v.V = append(v.V, Val{K: "str", S: Str(g.payload())})
			}
			return v
		case 2:
			n := g.r.Intn(3)
			v := Val{K: "map"}
			for i := 0; i < n; i++ {
				v.V = append(v.V, g.val(depth+1, false))
			}
			return v
		case 3:
			v := Val{K: "struct", I: int64(g.r.Intn(50)), S: Str(g.payload())}
			if g.chance(0.6) {
				v.V = []Val{g.val(depth+1, false)}
			}
			return v
		case 4:
			if top {
				v := Val{K: "pstruct", I: int64(g.r.Intn(50)), S: Str(g.payload())}
				return v
			}
			return Val{K: "ints", V: []Val{{K: "int", I: 1}, {K: "int", I: -7}}}
		case 5:
			// reachable through an unexported field only: printed by
			// reflection, no method of the value may be called
			return Val{K: "ustruct", I: int64(g.r.Intn(50)), V: []Val{g.val(depth+1, false)}}
		default:
			v := Val{K: "umap", S: Str(g.payload())}
			for i, n := 0, g.r.Intn(3); i < n; i++ {
				v.V = append(v.V, g.val(depth+1, false))
			}
			return v
		}
	case x < 72:
		return Val{K: g.pick([]string{"nilstringer", "nilerror", "typednilerr", "goerr"}), S: Str(g.payload())}
	case x < 76:
		return Val{K: "arrn", I: int64(g.r.Intn(1200))}
	case x < 78 && top:
		// a reflect.Value operand (direct operands only: inside a container
		// a reflect.Value prints its own internals, addresses included)
		switch g.r.Intn(8) {
		case 0, 1, 2:
			return Val{K: "rv", V: []Val{g.simple2()}}
		case 3:
			// a reflect.Value holding a value the library treats specially
			k := g.pick(safeKinds)
			return Val{K: "rv", V: []Val{{K: k, I: int64(g.r.Intn(300)), S: capBytes(Str(g.payload()))}}}
		case 4:
			return Val{K: "rv", V: []Val{{K: g.pick([]string{"safe", "unsafe"}), V: []Val{g.simple()}}}}
		case 5:
			return Val{K: "rvzero"}
		case 6:
			return Val{K: "rvunexp", V: []Val{{K: g.pick([]string{"goerr", "int", "str", "nil"}), ID: g.id(), S: Str(g.payload()), I: 5}}}
		}
		return Val{K: "rv", V: []Val{g.scripted(g.pick(scriptedList), depth+1)}}
	default:
		if depth > g.maxDepth+1 {
			return g.simple()
		}
		return g.scripted(g.pick(scriptedList), depth)
	}
}

func (g *gen) vals(n int, depth int, top bool) []Val {
	var r []Val
	for i := 0; i < n; i++ {
		r = append(r, g.val(depth, top))
	}
	return r
}

// panicPayload generates what a "pa" step raises.
func (g *gen) panicPayload(depth int) []Val {
	switch g.r.Intn(8) {
	case 0, 1:
		return []Val{{K: "str", S: Str("boom " + g.payload())}}
	case 2:
		return []Val{{K: "goerr", S: Str("err " + g.payload())}}
	case 3:
		return []Val{{K: "rterr", I: int64(g.r.Intn(3))}}
	case 4:
		return []Val{{K: "int", I: int64(g.r.Intn(100))}}
	case 5:
		return []Val{{K: "struct", I: 3, S: Str(g.payload())}}
	case 6:
		// a payload that is itself a Stringer; now and then one whose own
		// String panics (a nested panic: propagates)
		if g.chance(0.25) {
			return []Val{{K: "stringer", ID: g.id(), R: "never", P: []Step{{A: "pa", S: "inner"}}}}
		}
		return []Val{{K: "stringer", ID: g.id(), R: Str("P:" + g.payload())}}
	default:
		return []Val{{K: "str", S: Str(g.payload())}}
	}
}

func (g *gen) ctlSteps(depth int, allowPanic bool) []Step {
	var ss []Step
	if g.chance(g.yieldDensity) {
		ss = append(ss, Step{A: "y"})
	}
	if depth < g.maxDepth && g.chance(g.reenterRate) {
		op := g.simpleOp(depth + 1)
		ss = append(ss, Step{A: "re", O: &op})
	}
	if allowPanic && g.chance(g.panicRate) {
		ss = append(ss, Step{A: "pa", V: g.panicPayload(depth)})
	}
	return ss
}

// scripted generates a value with a user method program.
func (g *gen) scripted(kind string, depth int) Val {
	v := Val{K: kind, ID: g.id(), R: Str(g.payload())}
	if len(v.R) > 300 {
		v.R = v.R[:300]
	}
	switch kind {
	case "stringer", "error", "gostringer", "safemsg", "errstr", "safeval", "regsafe", "liststringer", "nilliststringer", "maperror", "intstringer":
		v.P = g.ctlSteps(depth, true)
	case "wraperr":
		v.P = g.ctlSteps(depth, true)
		v.V = []Val{{K: "goerr", S: Str("inner " + g.payload())}}
	case "formatter", "errfmt", "strformatter":
		n := 1 + g.r.Intn(4)
		for i := 0; i < n; i++ {
			switch g.r.Intn(6) {
			case 0:
				v.P = append(v.P, Step{A: "w", S: Str(g.payload())})
			case 1:
				v.P = append(v.P, Step{A: "ws", S: Str(g.payload())})
			case 2:
				v.P = append(v.P, Step{A: "ff", S: "<%v|%d>", V: []Val{g.simple(), {K: "int", I: int64(g.r.Intn(9))}}})
			case 3:
				v.P = append(v.P, Step{A: "fl"})
			case 4:
				v.P = append(v.P, Step{A: "mf"})
			default:
				v.P = append(v.P, g.ctlSteps(depth, true)...)
			}
		}
	case "safefmt", "errsafefmt":
		v.P = g.safeScript(depth, 1+g.r.Intn(5), true)
	}
	return v
}

// safeScript generates a program over the SafePrinter vocabulary.
func (g *gen) safeScript(depth, n int, allowPanic bool) []Step {
	var ss []Step
	for i := 0; i < n; i++ {
		switch g.r.Intn(16) {
		case 0, 1:
			ss = append(ss, Step{A: "ss", S: Str(g.payload())})
		case 2:
			ss = append(ss, Step{A: "si", I: int64(g.r.Intn(1000) - 100)})
		case 3:
			ss = append(ss, Step{A: "su", I: int64(g.r.Intn(1000))})
		case 4:
			ss = append(ss, Step{A: "sf", I: int64(g.r.Intn(100))})
		case 5:
			ss = append(ss, Step{A: "sr", I: int64([]int{65, 0x203a, 0x2039, 0xe9, -1, 0xd800, 0x110000, 10}[g.r.Intn(8)])})
		case 6:
			ss = append(ss, Step{A: "sy", I: int64(g.r.Intn(256))})
		case 7:
			ss = append(ss, Step{A: "sbs", S: Str(g.payload())})
		case 8, 9:
			if allowPanic && g.panicRate > 0 && g.chance(0.08) {
				// a nested Print whose operand's panic payload panics again,
				// recovered by the calling user code, which carries on
				ss = append(ss, Step{A: "prr", V: []Val{g.simple(), {K: "stringer", ID: g.id(), R: "x", P: []Step{{A: "pa", V: []Val{{K: "stringer", ID: g.id(), R: "never", P: []Step{{A: "pa", S: "inner"}}}}}}}}})
			} else if depth < g.maxDepth {
				ss = append(ss, Step{A: "pr", V: g.vals(1+g.r.Intn(3), depth+1, true)})
			} else {
				ss = append(ss, Step{A: "pr", V: []Val{g.simple()}})
			}
		case 10:
			a := g.vals(1+g.r.Intn(2), depth+1, true)
			if depth >= g.maxDepth {
				a = []Val{g.simple()}
			}
			ss = append(ss, Step{A: "pf", S: Str(g.format(a)), V: a})
		case 11:
			ss = append(ss, Step{A: "us", S: Str(g.payload())})
		case 12:
			ss = append(ss, Step{A: []string{"uy", "ur"}[g.r.Intn(2)], I: int64([]int{65, 0x203a, 0xe2, 0x80, 200, 10, -1, 0xdfff}[g.r.Intn(8)])})
		case 13:
			ss = append(ss, Step{A: "ubs", S: Str(g.payload())})
		case 14:
			ss = append(ss, Step{A: []string{"w", "ws", "fl"}[g.r.Intn(3)], S: Str(g.payload())})
		default:
			ss = append(ss, g.ctlSteps(depth, allowPanic)...)
		}
	}
	return ss
}

var verbsCommon = []string{"v", "v", "v", "s", "s", "d", "q", "x", "+v", "#v", "T", "X", "t", "c", "U", "e", "o", "b", "10v", "-8s", ".2s", "08d", "+d", " x", "#x", ".3v", "6.2f", "g", "F", "G", "O", "+q", "#q", "#U", "-12s", "% X"}

// format builds a format string for the given operands.
func (g *gen) format(args []Val) string {
	if len(args) > 0 && g.chance(0.06) {
		// no directive at all: every operand is surplus (%!(EXTRA ...))
		return g.lit()
	}
	var sb strings.Builder
	for i := range args {
		if g.chance(0.7) {
			sb.WriteString(g.lit())
		}
		sb.WriteString("%" + g.pick(verbsCommon))
		_ = i
	}
	if g.chance(0.6) {
		sb.WriteString(g.lit())
	}
	// format-level abnormalities
	switch g.r.Intn(24) {
	case 0:
		sb.WriteString("%d") // missing operand
	case 1:
		sb.WriteString("%!") // NOVERB-ish
	case 2:
		sb.WriteString("%z")
	case 3:
		sb.WriteString("%[9]d") // bad index
	case 4:
		sb.WriteString("%[1]v") // reorder
	case 5:
		sb.WriteString("%*d") // star width, probably bad
	case 6:
		sb.WriteString("%w")
	case 7:
		sb.WriteString("%%")
	case 8:
		sb.WriteString("%")
	case 9:
		sb.WriteString("%.*s")
	case 10:
		// argument indexes that do not parse
		sb.WriteString(g.pick([]string{"%[", "%[1", "%[]d", "%[x]d", "%[-1]d", "%[1]", "%[2]*[1]d", "%[1]*d", "%[0]v", "%[99999999999999999999]d", "%.[1]*f", "%[1]"}))
		if g.chance(0.5) {
			sb.WriteString(g.lit())
		}
	}
	return sb.String()
}

func (g *gen) writer(depth int) *WSpec {
	if !g.chance(g.writerFaults) {
		return &WSpec{Kind: "ok"}
	}
	k := g.pick([]string{"err0", "errk", "okerr", "short", "short0", "panic", "block", "reenter"})
	w := &WSpec{Kind: k, K: g.r.Intn(12)}
	if k == "reenter" && depth < g.maxDepth {
		op := g.simpleOp(depth + 1)
		w.Op = &op
	}
	return w
}

// simpleOp generates an op suitable for re-entrant calls.
func (g *gen) simpleOp(depth int) Op {
	a := []Val{g.simple()}
	if g.chance(0.4) {
		a = append(a, g.val(depth+1, true))
	}
	switch g.r.Intn(5) {
	case 0, 1:
		return Op{K: "sprint", A: a}
	case 2:
		// a nested HelperForErrorf: takes a second printer, with its own
		// %w capture state, while the outer call is in flight
		return Op{K: "errorf", F: Str(g.lit() + "%v %w"), A: []Val{g.simple(), {K: "goerr", ID: 800 + g.r.Intn(50), S: Str("nested " + g.payload())}}}
	}
	return Op{K: "sprintf", F: Str(g.format(a)), A: a}
}

var opKindsC12 = []string{"sprint", "sprint", "sprintf", "sprintf", "sprintf", "sprintfn", "fprint", "fprintf", "errorf", "errorf", "builder", "join", "jointo", "swm", "lateprobe"}

// op generates one op of the general workload.
func (g *gen) op(depth int) Op {
	if g.shared > 0 && g.chance(0.3) {
		return g.sharedOp(depth)
	}
	k := g.pick(opKindsC12)
	for g.kindsOff[k] {
		k = g.pick(opKindsC12)
	}
	switch k {
	case "sprint":
		n := g.r.Intn(4)
		if g.typeStorm {
			n = 3 + g.r.Intn(6)
		}
		return Op{K: k, A: g.vals(n, depth, true)}
	case "sprintf":
		a := g.vals(g.r.Intn(4), depth, true)
		return Op{K: k, F: Str(g.format(a)), A: a}
	case "sprintfn":
		return Op{K: k, S: g.safeScript(depth, 1+g.r.Intn(6), true)}
	case "fprint":
		return Op{K: k, A: g.vals(g.r.Intn(4), depth, true), W: g.writer(depth)}
	case "fprintf":
		a := g.vals(g.r.Intn(3), depth, true)
		return Op{K: k, F: Str(g.format(a)), A: a, W: g.writer(depth)}
	case "errorf":
		a := g.vals(g.r.Intn(3), depth, true)
		f := g.format(a)
		// %w somewhere, with an error operand most of the time
		if g.chance(0.8) {
			var ev Val
			switch g.r.Intn(6) {
			case 5:
				ev = g.scripted("maperror", depth) // an error of an uncomparable type
			case 0:
				ev = Val{K: "goerr", S: Str(g.payload())}
			case 1:
				ev = g.scripted("error", depth)
			case 2:
				ev = g.scripted("errfmt", depth)
			case 3:
				ev = Val{K: "safe", V: []Val{{K: "goerr", S: Str(g.payload())}}}
			default:
				ev = g.scripted("errsafefmt", depth)
			}
			a = append(a, ev)
			f += g.lit() + "%w"
			if g.chance(0.15) {
				f += " %w"
				if g.chance(0.5) {
					// a second error of the same kind (and dynamic type) as the first
					second := ev
					if scriptedKinds[second.K] {
						second.ID = g.id()
					}
					a = append(a, second)
				} else {
					a = append(a, Val{K: "goerr", S: "second"})
				}
			}
		}
		return Op{K: k, F: Str(f), A: a}
	case "builder":
		return Op{K: "builder", S: g.builderSession(depth, 1+g.r.Intn(8))}
	case "join":
		n := g.r.Intn(4)
		op := Op{K: k, F: Str(g.redactableLit())}
		for i := 0; i < n; i++ {
			op.A = append(op.A, Val{K: "rs", S: Str(g.redactableLit())})
		}
		return op
	case "jointo":
		var v Val
		switch g.r.Intn(4) {
		case 0:
			v = Val{K: "slice", V: g.vals(g.r.Intn(4), depth+1, false)}
		case 1:
			v = Val{K: "strs", V: []Val{{K: "str", S: Str(g.payload())}, {K: "str", S: Str(g.payload())}}}
		case 2:
			v = Val{K: "rss", V: []Val{{K: "rs", S: Str(g.redactableLit())}, {K: "rs", S: Str(g.redactableLit())}}}
		default:
			v = Val{K: "ints", V: []Val{{K: "int", I: 4}, {K: "int", I: 5}, {K: "int", I: 6}}}
		}
		return Op{K: k, F: Str(g.redactableLit()), A: []Val{v}, Dst: g.safeScriptNoCtl(g.r.Intn(3))}
	case "lateprobe":
		return Op{K: "lateprobe", N: g.r.Intn(2)}
	default: // swm
		return Op{K: "swm", A: []Val{g.scripted("safefmt", depth)}}
	}
}

// safeScriptNoCtl: SafeWriter calls only (usable on a StringBuilder).
func (g *gen) safeScriptNoCtl(n int) []Step {
	var ss []Step
	for len(ss) < n {
		st := g.safeScript(g.maxDepth, 1, false)
		for _, s := range st {
			switch s.A {
			case "w", "ws", "fl", "y", "re", "pa":
			default:
				ss = append(ss, s)
			}
		}
	}
	return ss
}

// builderSession generates a StringBuilder session: SafeWriter calls,
// io.Writer-style writes, accessors and restarts.
func (g *gen) builderSession(depth, n int) []Step {
	var ss []Step
	for i := 0; i < n; i++ {
		switch g.r.Intn(12) {
		case 0:
			ss = append(ss, Step{A: "wr", S: Str(g.payload())})
		case 1:
			ss = append(ss, Step{A: "wS", S: Str(g.payload())})
		case 2:
			ss = append(ss, Step{A: "wb", I: int64(g.r.Intn(256))})
		case 3:
			ss = append(ss, Step{A: "wR", I: int64([]int{65, 0x203a, 0x2039, 0xe9, 0x65e5, 10}[g.r.Intn(6)])})
		case 4:
			ss = append(ss, Step{A: g.pick([]string{"len", "cap", "str", "rstr", "rbytes", "mode"})})
		case 5:
			if g.chance(0.5) {
				ss = append(ss, Step{A: g.pick([]string{"reset", "takes", "takeb"})})
			} else {
				ss = append(ss, Step{A: "y"})
			}
		default:
			ss = append(ss, g.safeScriptNoCtl(1)...)
		}
	}
	return ss
}

func (g *gen) tape(n int, pz float64, special float64) []int {
	t := make([]int, n)
	for i := range t {
		switch {
		case g.chance(pz):
			t[i] = 0
		case g.chance(special):
			t[i] = []int{1, 2, 7, 9, 10, 15}[g.r.Intn(6)] // drop / flush / fresh
		default:
			v := 3 + g.r.Intn(60)
			for v%8 == 1 || v%8 == 2 || v%8 == 7 {
				v++
			}
			t[i] = v
		}
	}
	return t
}

// generate builds the plan for (prop, seed, tier).
func generate(prop string, seed int64, tier string) *Plan {
	g := newGen(seed^int64(hashString(prop)&0xffff)<<32, tier)
	p := &Plan{Prop: prop, Seed: seed, Tier: tier}
	p.Cfg.Hook = g.chance(0.35)
	p.Cfg.CarryPool = g.chance(0.5)
	if prop == "C12" && g.chance(0.5) {
		p.Cfg.LateReg = 1 + int(seed%90000)
	}
	nt := []int{1, 2, 2, 3, 3, 4, 5, 8, 12, 16}[g.r.Intn(10)]
	maxOps := []int{2, 4, 6, 10, 16}[g.r.Intn(5)]
	if g.thorough && g.chance(0.2) {
		maxOps = 40
	}
	pz := []float64{0.2, 0.5, 0.8, 0.95}[g.r.Intn(4)]
	if g.typeStorm {
		// a storm only matters when tasks interleave densely
		if nt < 4 {
			nt = 4 + g.r.Intn(5)
		}
		pz = []float64{0.2, 0.4}[g.r.Intn(2)]
	}
	special := []float64{0, 0.05, 0.2}[g.r.Intn(3)]
	for _, k := range opKindsC12 {
		if g.chance(0.12) {
			g.kindsOff[k] = true
		}
	}
	g.kindsOff["sprintf"] = false
	if prop == "C12" && g.chance(0.5) {
		// values that several tasks print at the same time
		g.shared = 1 + g.r.Intn(3)
		for i := 0; i < g.shared; i++ {
			sp := g.sharedSpec()
			if g.chance(0.25) {
				sp = g.argsSpec()
			}
			g.sharedArgs = append(g.sharedArgs, sp.K == "argslist")
			p.Shared = append(p.Shared, sp)
			// pointers print as addresses anywhere but in direct operands
			g.sharedPtr = append(g.sharedPtr, ((sp.K == "sbval" || sp.K == "mbval") && len(sp.V) > 0) || (sp.K == "subbytes" && sp.I == 4))
		}
		if nt < 2 {
			nt = 2 + g.r.Intn(3)
		}
	}
	if prop == "C13" {
		p.Cfg.Sink = true
	}
	if prop == "C16" || prop == "C12" {
		p.Cfg.Sink = g.chance(0.5)
	}
	// the run's ops, then dealt to the tasks
	target := nt * (1 + g.r.Intn(maxOps))
	var ops []Op
	for len(ops) < target {
		g.nextID = 0
		if prop != "C12" && g.chance(0.3) {
			ops = append(ops, g.op(0)) // background traffic that dirties the pool
			continue
		}
		switch prop {
		case "C11":
			if g.chance(0.25) {
				ops = append(ops, g.c11Edge())
			} else {
				ops = append(ops, g.c11Base(p.Cfg.Hook)...)
			}
		case "C13":
			ops = append(ops, g.c13Base()...)
		case "C15":
			ops = append(ops, g.opC15())
		case "C16":
			ops = append(ops, g.opC16())
		default:
			ops = append(ops, g.op(0))
		}
	}
	p.Tasks = make([]Task, nt)
	for _, op := range ops {
		ti := g.r.Intn(nt)
		p.Tasks[ti].Ops = append(p.Tasks[ti].Ops, op)
	}
	for ti := range p.Tasks {
		n := len(p.Tasks[ti].Ops)
		p.Tasks[ti].Tape = g.tape(n*(6+g.r.Intn(30)), pz, special)
	}
	if p.Cfg.Sink {
		p.Cfg.SinkSteps = 2 + g.r.Intn(20)
	}
	return p
}
