package main

// Executing ops against the real library.

import (
	"fmt"
	"reflect"
	"strings"

	"github.com/cockroachdb/redact"
)

// op classes (history matrix dimensions)
const (
	cSprint = iota
	cSprintf
	cSprintfn
	cFprint
	cFprintf
	cErrorf
	cBuilder
	cManual
	cJoin
	cComposite
	cPanicContained
	cPanicEscaped
	cBig
	cOverride
	cNested
	cBadVerb
	nClasses
)

var classNames = [...]string{"sprint", "sprintf", "sprintfn", "fprint", "fprintf", "errorf", "builder", "manual",
	"join", "composite", "panic-contained", "panic-escaped", "big-output", "safe/unsafe-override", "nested-printer", "bad-verb-or-%w-misuse"}

type opFeatures struct {
	panics, escapes, big, override, nested, badverb bool
}

func (f *opFeatures) scanVal(v *Val) {
	if len(v.S) > 60<<10 {
		f.big = true
	}
	switch v.K {
	case "safe", "unsafe":
		f.override = true
	}
	for i := range v.V {
		f.scanVal(&v.V[i])
	}
	f.scanSteps(v.P)
}

func (f *opFeatures) scanSteps(ss []Step) {
	for i := range ss {
		st := &ss[i]
		switch st.A {
		case "pa":
			f.panics = true
		case "pr", "pf", "prr":
			f.nested = true
		}
		if len(st.S) > 60<<10 {
			f.big = true
		}
		for j := range st.V {
			f.scanVal(&st.V[j])
		}
		if st.O != nil {
			f.scanOp(st.O)
		}
	}
}

func (f *opFeatures) scanOp(op *Op) {
	for i := range op.A {
		f.scanVal(&op.A[i])
	}
	f.scanSteps(op.S)
	f.scanSteps(op.Dst)
	if op.PT != nil && op.PT.Nested {
		f.escapes = true
	}
	if op.W != nil && op.W.Kind == "panic" {
		f.escapes = true
	}
	if op.In != nil {
		f.scanOp(op.In)
	}
	if op.PT != nil && !op.PT.NilRcv {
		f.panics = true
	}
	if strings.Contains(string(op.F), "%!") || strings.Contains(string(op.F), "%w") || strings.Contains(string(op.F), "%z") {
		f.badverb = true
	}
	for _, d := range op.D {
		if d.Verb == "w" || d.Verb == "z" || d.Verb == "!" {
			f.badverb = true
		}
	}
}

func classify(op *Op) int {
	var f opFeatures
	f.scanOp(op)
	switch {
	case f.escapes:
		return cPanicEscaped
	case f.panics:
		return cPanicContained
	case f.big:
		return cBig
	case f.badverb:
		return cBadVerb
	case f.override:
		return cOverride
	case f.nested:
		return cNested
	}
	switch op.K {
	case "sprint":
		return cSprint
	case "sprintf":
		return cSprintf
	case "sprintfn":
		return cSprintfn
	case "fprint":
		return cFprint
	case "fprintf":
		return cFprintf
	case "errorf":
		return cErrorf
	case "builder":
		return cBuilder
	case "manual":
		return cManual
	case "join", "jointo":
		return cJoin
	}
	return cComposite
}

// ---- simulated writers ---------------------------------------------------

type writerErr struct{ id int }

func (w *writerErr) Error() string { return fmt.Sprintf("simulated writer error %d", w.id) }

type simWriter struct {
	e     *env
	spec  *WSpec
	err   *writerErr
	calls int
	seen  []string // copies of what each Write was given
	kept  [][]byte // the slices themselves
	retN  []int
}

func (e *env) newWriter(spec *WSpec) *simWriter {
	if spec == nil {
		spec = &WSpec{Kind: "ok"}
	}
	return &simWriter{e: e, spec: spec, err: &writerErr{id: e.opIdx}}
}

func (w *simWriter) Write(p []byte) (n int, err error) {
	e := w.e
	w.calls++
	w.seen = append(w.seen, string(p))
	w.kept = append(w.kept, p)
	e.fired(fWriterKeeps)
	defer func() { w.retN = append(w.retN, n) }()
	k := w.spec.K
	if k > len(p) {
		k = len(p)
	}
	if k < 0 {
		k = 0
	}
	switch w.spec.Kind {
	case "ok":
		return len(p), nil
	case "err0":
		e.fired(fWriterErr)
		return 0, w.err
	case "errk":
		e.fired(fWriterErr)
		return k, w.err
	case "okerr":
		e.fired(fWriterErr)
		return len(p), w.err
	case "short":
		if k == len(p) && k > 0 {
			k--
		}
		e.fired(fWriterShort)
		return k, nil
	case "short0":
		e.fired(fWriterShort)
		return 0, nil
	case "panic":
		e.fired(fWriterPanic)
		panic(fmt.Sprintf("writer %d panics", w.err.id))
	case "block":
		e.fired(fWriterBlocks)
		e.yield(yWriter)
		e.yield(yWriter)
		return len(p), nil
	case "reenter":
		e.fired(fWriterReenters)
		if w.spec.Op != nil {
			e.execNested(w.spec.Op)
		}
		return len(p), nil
	}
	panic("harness: unknown writer kind " + w.spec.Kind)
}

func (w *simWriter) errName(err error) string {
	switch {
	case err == nil:
		return ""
	case err == error(w.err):
		return "the-writers-error"
	}
	return "other:" + err.Error()
}

// ---- executing ops -------------------------------------------------------

type opFunc func(e *env, op *Op, out *Outcome)

var opKinds = map[string]opFunc{}

func describePanic(r interface{}) string {
	switch v := r.(type) {
	case error:
		return fmt.Sprintf("error(%T): %s", r, v.Error())
	case string:
		return "string: " + v
	case fmt.Stringer:
		return fmt.Sprintf("%T", r)
	}
	return fmt.Sprintf("%T: %v", r, r)
}

// execOp runs one op and returns everything observable about it.
func (e *env) execOp(op *Op) (out Outcome) {
	defer func() {
		if r := recover(); r != nil {
			if s, ok := r.(string); ok && strings.HasPrefix(s, "harness:") {
				panic(r)
			}
			out.Panic = describePanic(r)
			e.fired(fEscapedPanic)
		}
	}()
	f := opKinds[op.K]
	if f == nil {
		panic("harness: unknown op kind " + op.K)
	}
	f(e, op, &out)
	return out
}

// execNested runs an op from inside a user method or a writer.
func (e *env) execNested(op *Op) Outcome {
	saveDepth := e.depth
	out := e.execOp(op)
	e.depth = saveDepth
	if out.Panic != "" {
		// a nested top-level call panicked: propagate, as a real
		// program would
		panic("nested call panicked: " + out.Panic)
	}
	return out
}

func (e *env) reenter(op *Op) Outcome {
	e.fired(fCallbackReenters)
	if op == nil {
		return Outcome{}
	}
	return e.execNested(op)
}

func init() {
	opKinds["sprint"] = func(e *env, op *Op, out *Outcome) {
		out.Out = string(redact.Sprint(e.buildAll(op.A)...))
	}
	opKinds["sprintf"] = func(e *env, op *Op, out *Outcome) {
		out.Out = string(redact.Sprintf(string(op.F), e.buildAll(op.A)...))
	}
	opKinds["sprintfn"] = func(e *env, op *Op, out *Outcome) {
		out.Out = string(redact.Sprintfn(func(w redact.SafePrinter) {
			e.enter("Sprintfn")
			defer e.leave()
			for i := range op.S {
				e.safeStep(&op.S[i], w, w, 'v')
			}
		}))
	}
	opKinds["swm"] = func(e *env, op *Op, out *Outcome) {
		var f redact.SafeFormatter
		if len(op.A) > 0 {
			f, _ = e.build(&op.A[0]).(redact.SafeFormatter)
		}
		if f == nil {
			f = redact.RedactableString("")
		}
		out.Out = redact.StringWithoutMarkers(f)
	}
	opKinds["fprint"] = func(e *env, op *Op, out *Outcome) {
		w := e.newWriter(op.W)
		defer w.finish(out)
		n, err := redact.Fprint(w, e.buildAll(op.A)...)
		out.N, out.Err = n, w.errName(err)
	}
	opKinds["fprintf"] = func(e *env, op *Op, out *Outcome) {
		w := e.newWriter(op.W)
		defer w.finish(out)
		n, err := redact.Fprintf(w, string(op.F), e.buildAll(op.A)...)
		out.N, out.Err = n, w.errName(err)
	}
	opKinds["errorf"] = func(e *env, op *Op, out *Outcome) {
		args := e.buildAll(op.A)
		s, err := redact.HelperForErrorf(string(op.F), args...)
		out.Out = string(s)
		out.ErrArg = identifyErr(err, args)
		if err != nil {
			out.Err = "non-nil"
		}
	}
	// lateprobe: print a value of the type this run registered as safe
	// right before the tasks started. Once RegisterSafeType has returned,
	// every print call must treat the type as safe, whatever other
	// goroutines are doing; judged in the simulated execution only (the
	// reference execution runs before the registration).
	opKinds["lateprobe"] = func(e *env, op *Op, out *Outcome) {
		v := lateRegValue()
		var s string
		if op.N == 1 {
			s = string(redact.Sprintf("p=%v|%d", v, v))
		} else {
			s = string(redact.Sprint(v))
		}
		if e.t == nil || e.plan.Cfg.LateReg == 0 {
			return
		}
		e.stats.Extra["late_registration_probes"]++
		if strings.Contains(s, mStart) || strings.Contains(s, mEnd) {
			out.Checks = append(out.Checks, "C12/registered-safe-type-printed-unsafe: a value of a type registered with RegisterSafeType before the tasks started was printed as "+s)
		}
	}
	opKinds["join"] = func(e *env, op *Op, out *Outcome) {
		var parts []redact.RedactableString
		for i := range op.A {
			if op.A[i].K == "shared" {
				// a slice several tasks join at the same time
				if rss, ok := e.build(&op.A[i]).([]redact.RedactableString); ok {
					parts = rss
					break
				}
			}
			parts = append(parts, redact.RedactableString(op.A[i].S))
		}
		out.Out = string(redact.Join(redact.RedactableString(op.F), parts))
	}
	opKinds["jointo"] = func(e *env, op *Op, out *Outcome) {
		var sb redact.StringBuilder
		for i := range op.Dst {
			e.safeStep(&op.Dst[i], &sb, nil, 'v')
		}
		var vals interface{}
		if len(op.A) > 0 {
			vals = e.build(&op.A[0])
		}
		redact.JoinTo(&sb, redact.RedactableString(op.F), vals)
		out.Out = string(sb.RedactableString())
	}
}

func (w *simWriter) finish(out *Outcome) {
	out.Writes = w.seen
	out.Out = strings.Join(w.seen, "")
	for _, k := range w.kept {
		w.e.holdBytes(k, "slice passed to Write")
		w.e.handoffBytes(k, "slice passed to Write")
	}
}

// identifyErr says which operand (looking through Safe/Unsafe wrappers
// is the library's business, so all candidates are tried) the returned
// error is identical to.
func identifyErr(err error, args []interface{}) int {
	if err == nil {
		return 0
	}
	for i, a := range args {
		if same(a, err) {
			return i + 1
		}
	}
	return -1
}

func same(a interface{}, err error) (r bool) {
	defer func() {
		if recover() != nil {
			r = false
		}
	}()
	if ae, ok := a.(error); ok {
		// errors of uncomparable dynamic types (maps, slices, funcs) cannot
		// be compared with ==: compare the reference instead
		va, ve := reflect.ValueOf(ae), reflect.ValueOf(err)
		if va.IsValid() && ve.IsValid() && va.Type() == ve.Type() {
			switch va.Kind() {
			case reflect.Map, reflect.Slice, reflect.Func:
				return va.Pointer() == ve.Pointer()
			}
		}
		if ae == err {
			return true
		}
	}
	// look through Safe()/Unsafe() wrappers
	if w, ok := a.(interface{ GetValue() interface{} }); ok {
		return same(w.GetValue(), err)
	}
	return false
}

// ---- running a task's op in the simulation -------------------------------

var opsDone int

//go:norace
func bumpOpsDone() int { opsDone++; return opsDone }

//go:norace
func readOpsDone() int { return opsDone }

func (e *env) runOpSim(i int, op *Op) {
	e.opIdx = i
	e.curClass = classify(op)
	e.firstGet = false
	e.lockDepth = 0
	e.stats.Ops++
	e.stats.OpsByClass[e.curClass]++
	before := readOpsDone()
	for k := range e.defs {
		delete(e.defs, k)
	}
	e.owned = e.owned[:0]
	out := e.execOp(op)
	after := bumpOpsDone()
	if after-before > 1 {
		e.stats.InterleavedOps++
	}
	e.results = append(e.results, out)
	e.holding = 0
	propOracles(e, op, &out, i)
	if out.Out != "" {
		e.holdString(out.Out, "string")
	}
	// the caller reuses the byte slices it passed as operands
	e.scribbleOwned()
	e.recheck(6, e.immutabilityProp())
}

func (e *env) handoffBytes(b []byte, what string) {
	if e.sinkCh != nil && len(b) > 0 {
		select {
		case e.sinkCh <- handoff{b: b, h: hashBytes(b), from: e.t.id, op: e.opIdx, what: what}:
		default:
		}
	}
}

func (e *env) handoffString(s string, what string) {
	if e.sinkCh != nil && len(s) > 0 {
		select {
		case e.sinkCh <- handoff{s: s, h: hashString(s), from: e.t.id, op: e.opIdx, what: what}:
		default:
		}
	}
}
