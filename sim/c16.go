package main

// C16 — all entry points agree on what an argument list prints as;
// Fprint/Fprintf write once and report faithfully.
//
// The composite op "routes" takes one (format, operand list) and runs
// it through every route: Sprint/Sprintf, Fprint/Fprintf under EVERY
// writer behaviour (enumerated, with split points derived from the
// text's length), StringBuilder.Print/Printf onto a destination with
// generated prior content, and SafePrinter.Print/Printf inside Sprintfn
// and inside a SafeFormat method. Between routes the task yields, so
// the routes run on different recycled printers, interleaved with other
// tasks.

import (
	"bytes"
	"fmt"
	"io"
	"strings"
	"unicode/utf8"

	"github.com/cockroachdb/redact"
)

func init() {
	opKinds["routes"] = execRoutes
}

// stringWriter also implements io.StringWriter: a library that goes
// through io.WriteString would reach WriteString instead of Write.
type stringWriter struct{ *simWriter }

func (w *stringWriter) WriteString(s string) (int, error) { return w.Write([]byte(s)) }

type wcase struct {
	name string
	spec WSpec
	n    int    // expected n
	err  string // expected error name
	pan  bool
}

func writerCases(textLen int, reenter *Op, thorough bool) []wcase {
	cs := writerCasesQuick(textLen, reenter)
	if thorough {
		// every split point of short texts, and the first and last 16 of long ones
		for k := 0; k < textLen; k++ {
			if k >= 16 && k < textLen-16 {
				continue
			}
			cs = append(cs,
				wcase{fmt.Sprintf("errk#%d", k), WSpec{Kind: "errk", K: k}, k, "the-writers-error", false},
				wcase{fmt.Sprintf("short#%d", k), WSpec{Kind: "short", K: k}, k, "", false})
		}
	}
	return cs
}

func writerCasesQuick(textLen int, reenter *Op) []wcase {
	mid := textLen / 2
	last := textLen - 1
	if last < 0 {
		last = 0
	}
	one := 1
	if one > textLen {
		one = textLen
	}
	shortMid := mid
	if shortMid == textLen && shortMid > 0 {
		shortMid--
	}
	shortLast := last
	return []wcase{
		{"ok", WSpec{Kind: "ok"}, textLen, "", false},
		{"err0", WSpec{Kind: "err0"}, 0, "the-writers-error", false},
		{"errk@1", WSpec{Kind: "errk", K: one}, one, "the-writers-error", false},
		{"errk@mid", WSpec{Kind: "errk", K: mid}, mid, "the-writers-error", false},
		{"okerr", WSpec{Kind: "okerr"}, textLen, "the-writers-error", false},
		{"short0", WSpec{Kind: "short0"}, 0, "", false},
		{"short@mid", WSpec{Kind: "short", K: shortMid}, shortMid, "", false},
		{"short@last", WSpec{Kind: "short", K: shortLast}, shortLast, "", false},
		{"panic", WSpec{Kind: "panic"}, 0, "", true},
		{"block", WSpec{Kind: "block"}, textLen, "", false},
		{"reenter", WSpec{Kind: "reenter", Op: reenter}, textLen, "", false},
	}
}

func execRoutes(e *env, op *Op, out *Outcome) {
	printf := op.N == 1
	style := "print"
	if printf {
		style = "printf"
	}
	fail := func(inv, route, detail string) {
		out.Checks = append(out.Checks, "C16/"+inv+"#"+style+"/"+route+": "+detail)
	}
	count := func(route, w string) {
		if e.t != nil {
			e.stats.Routes[style+"/"+route+"/"+w]++
		}
	}
	mk := func(kind string) Op {
		if printf {
			return Op{K: kind + "f", F: op.F, A: op.A}
		}
		return Op{K: kind, A: op.A}
	}
	prStep := Step{A: "pr", V: op.A}
	if printf {
		prStep = Step{A: "pf", S: op.F, V: op.A}
	}
	withDst := func(extra ...Step) []Step {
		return append(append([]Step{}, op.Dst...), extra...)
	}

	// ---- S route ---------------------------------------------------------
	sop := mk("sprint")
	S := e.execOp(&sop)
	count("S", "-")
	out.Out = S.Out
	if S.Panic != "" {
		// a legitimately propagating panic (nested payload): nothing to compare
		out.Panic = S.Panic
		return
	}
	if e.t != nil {
		e.stats.Extra["route_groups"]++
	}
	e.yield(ySession)

	// ---- F route, every writer behaviour ----------------------------------
	reenter := &Op{K: "sprintf", F: "re %v", A: []Val{{K: "int", I: 1}}}
	for _, wc := range writerCases(len(S.Out), reenter, e.plan.Tier == "thorough") {
		fop := mk("fprint")
		spec := wc.spec
		fop.W = &spec
		F := e.execOp(&fop)
		if i := strings.Index(wc.name, "#"); i > 0 {
			count("F", wc.name[:i]+"@every-split-point(thorough)")
		} else {
			count("F", wc.name)
		}
		out.Extra = append(out.Extra, fmt.Sprintf("F/%s n=%d err=%s writes=%d panic=%v", wc.name, F.N, F.Err, len(F.Writes), F.Panic != ""))
		if len(F.Writes) != 1 {
			fail("not-a-single-write", "F/"+wc.name, fmt.Sprintf("the writer saw %d Write calls, want exactly 1", len(F.Writes)))
		}
		if F.Out != S.Out {
			fail("F-differs-from-S", "F/"+wc.name, fmt.Sprintf("bytes handed to the writer %q differ from the S result %q", clip(F.Out), clip(S.Out)))
		}
		if wc.pan {
			if F.Panic == "" {
				fail("writer-panic-swallowed", "F/"+wc.name, "the writer panicked but the call returned normally")
			}
		} else {
			if F.Panic != "" {
				fail("call-panicked", "F/"+wc.name, F.Panic)
			} else if F.N != wc.n || F.Err != wc.err {
				fail("n-err-not-the-writers", "F/"+wc.name, fmt.Sprintf("returned (n=%d, err=%q), the writer returned (n=%d, err=%q)", F.N, F.Err, wc.n, wc.err))
			}
		}
		e.yield(ySession)
	}

	// ---- F route into destinations that a library might special-case -----------
	{
		type dest struct {
			name string
			w    io.Writer
			got  func() (string, int) // text received, number of Write-like calls (-1: not observable)
		}
		var bb bytes.Buffer
		w1, w2 := e.newWriter(nil), e.newWriter(nil)
		sw := &stringWriter{simWriter: e.newWriter(nil)}
		var dsb redact.StringBuilder
		// a ManualBuffer in raw (pre-redactable) mode whose content ends in an
		// envelope: what is written to it is appended verbatim
		var dmb redact.ManualBuffer
		dmb.SetMode(2)
		const mbPrior = "user " + mStart + "bob" + mEnd
		dmb.WriteString(mbPrior)
		dests := []dest{
			{"*ManualBuffer(raw mode)", &dmb, func() (string, int) {
				return strings.TrimPrefix(string(dmb.RedactableString()), mbPrior), -1
			}},
			{"bytes.Buffer", &bb, func() (string, int) { return bb.String(), -1 }},
			{"io.MultiWriter", io.MultiWriter(w1, w2), func() (string, int) {
				if strings.Join(w1.seen, "") != strings.Join(w2.seen, "") {
					return "<the two writers saw different bytes>", w1.calls
				}
				if w1.calls != w2.calls {
					return strings.Join(w1.seen, ""), -2
				}
				return strings.Join(w1.seen, ""), w1.calls
			}},
			{"io.StringWriter", sw, func() (string, int) { return strings.Join(sw.seen, ""), sw.calls }},
			{"*StringBuilder", &dsb, nil},
		}
		for _, d := range dests {
			var n int
			var err error
			func() {
				defer func() {
					if r := recover(); r != nil {
						fail("call-panicked", "F/"+d.name, fmt.Sprint(r))
					}
				}()
				if printf {
					n, err = redact.Fprintf(d.w, string(op.F), e.buildAll(op.A)...)
				} else {
					n, err = redact.Fprint(d.w, e.buildAll(op.A)...)
				}
			}()
			count("F", d.name)
			if n != len(S.Out) || err != nil {
				fail("n-err-not-the-writers", "F/"+d.name, fmt.Sprintf("returned (n=%d, err=%v), the destination accepted all %d bytes", n, err, len(S.Out)))
			}
			if d.got != nil {
				text, calls := d.got()
				if text != S.Out {
					fail("F-differs-from-S", "F/"+d.name, fmt.Sprintf("the destination received %q, the S result is %q", clip(text), clip(S.Out)))
				}
				if calls >= 0 && calls != 1 || calls == -2 {
					fail("not-a-single-write", "F/"+d.name, fmt.Sprintf("the destination saw %d write calls, want exactly 1", calls))
				}
			}
		}
	}
	e.yield(ySession)

	// ---- builder route ---------------------------------------------------------
	d0op := Op{K: "builder", S: withDst()}
	d0 := e.execOp(&d0op)
	bop := Op{K: "builder", S: withDst(prStep)}
	B := e.execOp(&bop)
	count("builder", "-")
	if B.Panic != "" || d0.Panic != "" {
		fail("call-panicked", "builder", B.Panic+d0.Panic)
	} else if want, got := normalize(d0.Out+S.Out), normalize(B.Out); want != got {
		fail("route-differs-from-S", "builder", fmt.Sprintf("builder with prior content %q then Print: got %q want %q (up to merging of adjacent envelopes)", clip(d0.Out), clip(got), clip(want)))
	}
	e.yield(ySession)

	// ---- nested route: inside Sprintfn -----------------------------------------
	n0op := Op{K: "sprintfn", S: withDst()}
	n0 := e.execOp(&n0op)
	nop := Op{K: "sprintfn", S: withDst(prStep, Step{A: "ss", S: "|tail"})}
	N := e.execOp(&nop)
	count("sprintfn", "-")
	if N.Panic != "" || n0.Panic != "" {
		fail("call-panicked", "sprintfn", N.Panic+n0.Panic)
	} else if want, got := normalize(n0.Out+S.Out+"|tail"), normalize(N.Out); want != got {
		fail("route-differs-from-S", "sprintfn", fmt.Sprintf("Print on the SafePrinter inside Sprintfn after %q: got %q want %q", clip(n0.Out), clip(got), clip(want)))
	}
	e.yield(ySession)

	// ---- nested route: inside a SafeFormat method ---------------------------------
	m0op := Op{K: "sprint", A: []Val{{K: "safefmt", ID: 7001, P: withDst()}}}
	m0 := e.execOp(&m0op)
	mop := Op{K: "sprint", A: []Val{{K: "safefmt", ID: 7002, P: withDst(prStep, Step{A: "us", S: "|tail"})}}}
	M := e.execOp(&mop)
	count("safeformat", "-")
	if M.Panic != "" || m0.Panic != "" {
		fail("call-panicked", "safeformat", M.Panic+m0.Panic)
	} else if want, got := normalize(m0.Out+S.Out+mStart+"|tail"+mEnd), normalize(M.Out); want != got {
		fail("route-differs-from-S", "safeformat", fmt.Sprintf("Print on the SafePrinter inside SafeFormat after %q: got %q want %q", clip(m0.Out), clip(got), clip(want)))
	}
	e.yield(ySession)

	// ---- the same under a verb with flags, width and precision: the nested
	// printer starts with clean flags, so the argument list still prints as
	// it does through Sprint (no prior content here: the method's own
	// SafeInt/SafeFloat writes legitimately honour the outer flags)
	for _, dv := range []string{"%08.3v", "%+12v", "%-9.2d"} {
		fop := Op{K: "sprintf", F: Str(dv), A: []Val{{K: "safefmt", ID: 7005, P: []Step{prStep}}}}
		FV := e.execOp(&fop)
		count("safeformat-under-flagged-verb", "-")
		if FV.Panic != "" {
			fail("call-panicked", "safeformat-under-flagged-verb", FV.Panic)
		} else if want, got := normalize(S.Out), normalize(FV.Out); want != got {
			fail("route-differs-from-S", "safeformat-under-flagged-verb", fmt.Sprintf("Print on the SafePrinter inside a SafeFormat method reached through %s: got %q want %q", dv, clip(got), clip(want)))
		}
	}
	e.yield(ySession)

	// ---- the destination builder itself among the operands (sb.Print(args..., &sb)):
	// the text is what Sprint yields for the same operands, a second builder
	// with the same content standing for the destination
	{
		var o1, o2 Outcome
		s1 := e.newBuilderSession(&o1)
		for i := range op.Dst {
			s1.step(&op.Dst[i])
		}
		content := s1.sb.RedactableString()
		s2 := e.newBuilderSession(&o2)
		for i := range op.Dst {
			s2.step(&op.Dst[i])
		}
		func() {
			defer func() {
				if r := recover(); r != nil {
					fail("call-panicked", "builder-self-operand", fmt.Sprint(r))
				}
			}()
			var want string
			if printf {
				// a plain format that gives the builder operand a %v (under a
				// bad verb it would be dumped by reflection, internals included)
				pf := strings.Repeat("%v,", len(op.A)) + "|%v"
				want = string(redact.Sprintf(pf, append(e.buildAll(op.A), s1.sb)...))
				s2.sb.Printf(pf, append(e.buildAll(op.A), s2.sb)...)
			} else {
				want = string(redact.Sprint(append(e.buildAll(op.A), s1.sb)...))
				s2.sb.Print(append(e.buildAll(op.A), s2.sb)...)
			}
			count("builder-self-operand", "-")
			if w, got := normalize(string(content)+want), normalize(string(s2.sb.RedactableString())); w != got {
				fail("route-differs-from-S", "builder-self-operand", fmt.Sprintf("builder holding %q printing itself among its operands: got %q want %q", clip(string(content)), clip(got), clip(w)))
			}
		}()
	}
	e.yield(ySession)

	// ---- the same, with the SafeFormatter printed under Safe(): the nested
	// printer starts without override, so the argument list still prints as
	// it does through Sprint; the method's own unsafe writes become safe
	s0op := Op{K: "sprint", A: []Val{{K: "safe", V: []Val{{K: "safefmt", ID: 7003, P: withDst()}}}}}
	s0 := e.execOp(&s0op)
	ssop := Op{K: "sprint", A: []Val{{K: "safe", V: []Val{{K: "safefmt", ID: 7004, P: withDst(prStep, Step{A: "us", S: "|tail"})}}}}}
	SS := e.execOp(&ssop)
	count("safeformat-under-Safe", "-")
	if SS.Panic != "" || s0.Panic != "" {
		fail("call-panicked", "safeformat-under-Safe", SS.Panic+s0.Panic)
	} else if want, got := normalize(s0.Out+S.Out+"|tail"), normalize(SS.Out); want != got {
		fail("route-differs-from-S", "safeformat-under-Safe", fmt.Sprintf("Print on the SafePrinter inside SafeFormat of a Safe()-wrapped value after %q: got %q want %q", clip(s0.Out), clip(got), clip(want)))
	}
}

// opC16 generates one routes op.
func (g *gen) opC16() Op {
	saveP, saveB := g.panicRate, g.bigRate
	g.panicRate, g.bigRate = 0, 0
	defer func() { g.panicRate, g.bigRate = saveP, saveB }()
	g.nextID = 0
	a := g.vals(g.r.Intn(4), 1, true)
	op := Op{K: "routes", A: a, Dst: g.safeScriptNoCtl(g.r.Intn(4))}
	if g.chance(0.55) {
		op.N = 1
		op.F = Str(g.format(a))
		if g.chance(0.2) {
			// %w with an error operand: outside HelperForErrorf every route
			// reports it as a bad verb, in the same words
			ev := Val{K: "goerr", ID: g.id(), S: Str(g.payload())}
			switch g.r.Intn(4) {
			case 0:
				ev = g.scripted("error", 1)
			case 1:
				ev = Val{K: "safe", V: []Val{ev}}
			}
			op.A = append(op.A, ev)
			op.F += Str(g.lit() + g.pick([]string{"%w", "%w", "%+w", "%-12w|", fmt.Sprintf("%%[%d]w", len(op.A))}))
		}
	}
	// valid UTF-8 only: a dangling partial sequence at a seam between
	// the destination's prior content and the inserted text legitimately
	// gains a '?', which the compositional equality cannot express
	st := &sites{}
	st.walkOp(&op)
	for _, x := range st.strs {
		*x = Str(strings.ToValidUTF8(string(*x), "?"))
	}
	for _, sl := range st.steps {
		for i := range *sl {
			s := &(*sl)[i]
			switch s.A {
			case "sy", "uy":
				s.I &= 0x7f
			case "sr", "ur":
				if !utf8.ValidRune(rune(s.I)) {
					s.I = 'A'
				}
			}
		}
	}
	return op
}
