package main

func cmdDrive(args []string)       {}
func cmdDeterminism(args []string) {}
