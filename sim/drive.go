package main

// The driver behind /verif/check: spawns worker processes (plain and
// -race builds of this same program), confirms and minimises what they
// find, matches against known findings, writes the evidence file and
// prints the verdict.

import (
	"bufio"
	"bytes"
	"encoding/json"
	"flag"
	"fmt"
	"go/ast"
	"go/parser"
	"go/token"
	"os"
	"os/exec"
	"path/filepath"
	"sort"
	"strconv"
	"strings"
	"sync"
	"time"
)

type budget struct {
	plainRuns, raceRuns int // quick tier: total runs
	raceFilter          string
	level               string
}

var budgets = map[string]budget{
	"C11": {plainRuns: 1600, raceRuns: 0, level: "fault_enumeration"},
	"C12": {plainRuns: 1920, raceRuns: 480, level: "exploration"},
	"C13": {plainRuns: 3600, raceRuns: 480, raceFilter: "sinkMain", level: "exploration"},
	"C15": {plainRuns: 9600, raceRuns: 0, level: "exploration"},
	"C16": {plainRuns: 1200, raceRuns: 160, raceFilter: "sinkMain", level: "fault_enumeration"},
}

type knownFinding struct {
	Kind      string   `json:"kind"` // "known" or "fixed"
	Property  string   `json:"property"`
	Invariant string   `json:"invariant"`
	Class     string   `json:"class,omitempty"`
	Contains  []string `json:"detail_contains"`
	What      string   `json:"what"`
	Commit    string   `json:"commit,omitempty"`
}

func loadKnown(path string) []knownFinding {
	b, err := os.ReadFile(path)
	if err != nil {
		return nil
	}
	var k struct {
		Findings []knownFinding `json:"findings"`
	}
	if err := json.Unmarshal(b, &k); err != nil {
		fmt.Fprintf(os.Stderr, "HARNESS-TROUBLE: %s: %v\n", path, err)
		os.Exit(2)
	}
	return k.Findings
}

func (k *knownFinding) matches(v *Violation) bool {
	if k.Kind != "known" || k.Property != v.Prop || k.Invariant != v.Invariant {
		return false
	}
	if k.Class != "" && k.Class != v.Class {
		return false
	}
	hay := v.Detail + "\n" + v.Expected + "\n" + v.Actual
	for _, c := range k.Contains {
		if !strings.Contains(hay, c) {
			return false
		}
	}
	return true
}

type workerJob struct {
	race  bool
	seed  int64
	n     int
	stats *WorkerStats
	err   error
	code  int
	out   string
}

func trouble(format string, a ...interface{}) {
	fmt.Fprintf(os.Stderr, "HARNESS-TROUBLE: "+format+"\n", a...)
	os.Exit(2)
}

func cmdDrive(args []string) {
	fs := flag.NewFlagSet("drive", flag.ExitOnError)
	prop := fs.String("prop", "", "")
	tier := fs.String("tier", "quick", "")
	seed := fs.Int64("seed", 1, "")
	bin := fs.String("bin", "", "")
	raceBin := fs.String("racebin", "", "")
	verif := fs.String("verif", "/verif", "")
	work := fs.String("work", "", "scratch directory")
	secs := fs.Float64("secs", 600, "thorough tier: seconds of exploration")
	workers := fs.Int("workers", 16, "")
	fs.Parse(args)
	b, ok := budgets[*prop]
	if !ok {
		trouble("no check for property %q", *prop)
	}
	start := time.Now()
	replayDir := filepath.Join(*verif, "replays")
	os.MkdirAll(replayDir, 0o755)
	os.MkdirAll(filepath.Join(*verif, "evidence"), 0o755)
	known := loadKnown(filepath.Join(*verif, "known_findings.json"))

	// ---- determinism spot check (every invocation) ----------------------
	detSeeds := 6
	detOK, detDetail := determinismSpot(*prop, *tier, *seed, detSeeds, *bin, *raceBin, *work)
	if !detOK {
		trouble("determinism spot check failed: %s", detDetail)
	}

	// ---- plan the workers -------------------------------------------------
	var jobs []*workerJob
	nRace := 0
	if b.raceRuns > 0 {
		nRace = *workers * 3 / 8
		if *prop != "C12" {
			nRace = *workers / 4
		}
	}
	nPlain := *workers - nRace
	maxsec := 0.0
	plainPer, racePer := 0, 0
	if *tier == "thorough" {
		maxsec = *secs
		plainPer, racePer = 1<<30, 1<<30
	} else {
		plainPer = (b.plainRuns + nPlain - 1) / nPlain
		if nRace > 0 {
			racePer = (b.raceRuns + nRace - 1) / nRace
		}
	}
	const stride = 1 << 24
	for i := 0; i < nPlain; i++ {
		jobs = append(jobs, &workerJob{seed: *seed + int64(i)*stride, n: plainPer})
	}
	for i := 0; i < nRace; i++ {
		// the race workers re-run the first seeds of the plain workers'
		// ranges and then go on: same plans, different monitor
		jobs = append(jobs, &workerJob{race: true, seed: *seed + int64(i)*stride + stride/2, n: racePer})
	}
	var wg sync.WaitGroup
	for i, j := range jobs {
		wg.Add(1)
		go func(i int, j *workerJob) {
			defer wg.Done()
			runWorker(i, j, *prop, *tier, *bin, *raceBin, *work, replayDir, maxsec)
		}(i, j)
	}
	wg.Wait()

	// ---- aggregate ----------------------------------------------------------
	total := newWorkerStats(*prop)
	var found []FoundViolation
	type raceHit struct {
		seed int64
	}
	var raceSeeds []int64
	var seedRanges []string
	raceRunsDone, plainRunsDone := 0, 0
	var samples []json.RawMessage
	for _, j := range jobs {
		if j.err != nil || j.stats == nil {
			trouble("worker (race=%v seed=%d) failed: %v\n%s", j.race, j.seed, j.err, tailStr(j.out, 2000))
		}
		s := j.stats
		seedRanges = append(seedRanges, fmt.Sprintf("%d..%d%s", s.FirstSeed, s.FirstSeed+int64(s.Runs)-1, map[bool]string{true: "(race)", false: ""}[j.race]))
		if j.race {
			raceRunsDone += s.Runs
		} else {
			plainRunsDone += s.Runs
		}
		mergeWorker(total, s)
		found = append(found, s.Violations...)
		raceSeeds = append(raceSeeds, s.RaceSeeds...)
		if len(samples) < 3 && len(s.Samples) > 0 {
			samples = append(samples, s.Samples[0])
		}
	}
	for i := range total.Matrix {
		for j := range total.Matrix[i] {
			if total.Matrix[i][j] > 0 {
				total.MatrixCells++
			}
		}
	}

	// ---- supplementary free-running leg (thorough tier) --------------------------
	freeSummary := map[string]interface{}{"ran": false}
	if *tier == "thorough" && *raceBin != "" {
		fsec := *secs / 4
		if fsec > 180 {
			fsec = 180
		}
		if fsec < 20 {
			fsec = 20
		}
		const nFree = 6
		outs := make([]*FreeStats, nFree)
		var fwg sync.WaitGroup
		for i := 0; i < nFree; i++ {
			fwg.Add(1)
			go func(i int) {
				defer fwg.Done()
				out := filepath.Join(*work, fmt.Sprintf("free-%d.json", i))
				logp := filepath.Join(*work, fmt.Sprintf("freerace-%d", i))
				env := []string{"GORACE=halt_on_error=0 log_path=" + logp, "VERIF_RACE_LOG=" + logp, "GOMAXPROCS=16"}
				_, code := runCmd(env, time.Duration(fsec+600)*time.Second, *raceBin, "free", "-prop", *prop, "-tier", *tier,
					"-seed", strconv.FormatInt(*seed+int64(i)*stride+stride/4, 10), "-n", "100000000", "-maxsec", fmt.Sprint(fsec), "-out", out)
				if code != 0 && code != 66 {
					return
				}
				b, err := os.ReadFile(out)
				if err != nil {
					return
				}
				var st FreeStats
				if json.Unmarshal(b, &st) == nil {
					outs[i] = &st
				}
			}(i)
		}
		fwg.Wait()
		fr, fo, fm, fq := 0, 0, 0, 0
		suspect := map[int64]string{}
		for _, st := range outs {
			if st == nil {
				trouble("a free-running worker failed")
			}
			fr += st.Runs
			fo += st.Ops
			for _, m := range st.Mismatches {
				if m.V.Prop == *prop {
					fm++
					if _, ok := suspect[m.Seed]; !ok {
						suspect[m.Seed] = m.V.Invariant + ": " + m.V.Detail
					}
				}
			}
			for _, sd := range st.RaceSeeds {
				fq++
				if _, ok := suspect[sd]; !ok && (*prop == "C12" || b.raceFilter != "") {
					suspect[sd] = "race report"
				}
			}
		}
		// whatever the leg saw is re-searched under the simulator; the leg
		// itself decides nothing
		var sds []int64
		for sd := range suspect {
			sds = append(sds, sd)
		}
		sort.Slice(sds, func(a, c int) bool { return sds[a] < sds[c] })
		onlyFree := 0
		for k, sd := range sds {
			if k >= 4 {
				break
			}
			j := &workerJob{seed: sd, n: 1}
			runWorker(1000+k, j, *prop, *tier, *bin, *raceBin, *work, replayDir, 0)
			jr := &workerJob{race: true, seed: sd, n: 1}
			runWorker(2000+k, jr, *prop, *tier, *bin, *raceBin, *work, replayDir, 0)
			hit := false
			for _, x := range []*workerJob{j, jr} {
				if x.stats != nil {
					if len(x.stats.Violations) > 0 || len(x.stats.RaceSeeds) > 0 {
						hit = true
					}
					found = append(found, x.stats.Violations...)
					raceSeeds = append(raceSeeds, x.stats.RaceSeeds...)
				}
			}
			if !hit {
				onlyFree++
				fmt.Printf("FREE-RUNNING-LEG-ONLY seed=%d %s: seen with free-running goroutines on the real sync.Pool, not found by the simulator on the same plan; not counted (best effort)\n", sd, suspect[sd])
			}
		}
		freeSummary = map[string]interface{}{"ran": true, "runs": fr, "ops": fo, "oracle_mismatches": fm, "race_reports": fq,
			"seeds_re_searched_under_the_simulator": len(sds), "seen_only_in_this_leg_not_counted": onlyFree,
			"what": "same plans, free-running goroutines, real sync.Pool and Go scheduler, race build, GOMAXPROCS=16; schedule-independent oracles only; cross-check of the SimPool stub; decides nothing on its own"}
	}

	// ---- confirm what the workers found in a fresh process -------------------
	var reported []FoundViolation
	sort.SliceStable(found, func(a, c int) bool { return found[a].Seed < found[c].Seed })
	moreFound := 0
	if len(found) > 12 {
		moreFound = len(found) - 12
		found = found[:12]
	}
	for _, f := range found {
		out, code := runCmd(nil, 120*time.Second, *bin, "replay", "-quiet", f.Replay)
		if code != 1 || !strings.Contains(out, "VIOLATION property="+f.V.Prop) {
			trouble("violation %s of seed %d does not reproduce from its own replay file %s (exit %d)\n%s", f.V.key(), f.Seed, f.Replay, code, tailStr(out, 1500))
		}
		reported = append(reported, f)
	}
	// ---- races: confirm, minimise ------------------------------------------------
	sort.Slice(raceSeeds, func(a, c int) bool { return raceSeeds[a] < raceSeeds[c] })
	raceReported := 0
	raceIgnored := 0
	var raceUnconfirmed []int64
	raceExamined := 0
	for _, sd := range raceSeeds {
		if raceReported >= 2 || raceExamined >= 6 {
			break
		}
		raceExamined++
		plan := generate(*prop, sd, *tier)
		test := func(q *Plan) (bool, string) { return raceReplays(q, *raceBin, *work, b.raceFilter) }
		okRace, report := test(plan)
		for try := 0; !okRace && try < 2 && b.raceFilter == ""; try++ {
			okRace, report = test(plan)
		}
		if !okRace && b.raceFilter == "" {
			// maybe the report depends on what earlier runs of that worker
			// left behind in the process: retry with those runs as a prefix
			for _, j := range jobs {
				if j.race && j.stats != nil && sd > j.stats.FirstSeed && sd < j.stats.FirstSeed+int64(j.stats.Runs) {
					pp := plan.clone()
					for s0 := j.stats.FirstSeed; s0 < sd; s0++ {
						pp.Prefix = append(pp.Prefix, s0)
					}
					if ok2, rep2 := test(pp); ok2 {
						// keep only the part of the prefix that is needed
						dl := time.Now().Add(60 * time.Second)
						for chunk := len(pp.Prefix); chunk >= 1 && time.Now().Before(dl); chunk /= 2 {
							for at := 0; at+chunk <= len(pp.Prefix) && time.Now().Before(dl); {
								q := pp.clone()
								q.Prefix = append(append([]int64{}, pp.Prefix[:at]...), pp.Prefix[at+chunk:]...)
								if ok3, rep3 := test(q); ok3 {
									pp, rep2 = q, rep3
								} else {
									at += chunk
								}
							}
						}
						plan, okRace, report = pp, true, rep2
					}
					break
				}
			}
		}
		if !okRace {
			if b.raceFilter != "" {
				raceIgnored++
				continue // a race that does not involve this property's mechanism: C12's business
			}
			// The worker saw a report in this run but three fresh
			// executions of the same plan did not: not a verdict.
			raceUnconfirmed = append(raceUnconfirmed, sd)
			continue
		}
		min, _ := minimizeUntil(plan, func(q *Plan) bool { r, _ := test(q); return r }, 100, time.Now().Add(60*time.Second))
		_, report2 := test(min)
		if report2 != "" {
			report = report2
		}
		v := Violation{Prop: *prop, Invariant: "data-race", Task: -1, OpIdx: -1, Detail: raceSummary(report)}
		min.Violation = &v
		path := filepath.Join(replayDir, fmt.Sprintf("%s-seed%d-data-race.json", *prop, sd))
		if err := min.save(path); err != nil {
			trouble("%v", err)
		}
		os.WriteFile(strings.TrimSuffix(path, ".json")+".report.txt", []byte(report), 0o644)
		reported = append(reported, FoundViolation{Seed: sd, V: v, Replay: path, MinOps: min.opCount()})
		raceReported++
	}

	if len(raceUnconfirmed) > 0 {
		fmt.Printf("UNCONFIRMED-RACE-REPORT seeds=%v: a race-build worker saw a race report during these runs, but three fresh executions of the same plan did not report it; not counted as a violation\n", raceUnconfirmed)
		if len(reported) == 0 {
			// nothing else to report: a finding that does not replay is harness trouble, never a verdict
			trouble("race report(s) in seeds %v did not reproduce in a fresh process", raceUnconfirmed)
		}
	}
	// ---- verdict -------------------------------------------------------------------
	exit := 0
	nViol := 0
	for i := range reported {
		f := &reported[i]
		for k := range known {
			if known[k].matches(&f.V) {
				f.Known = known[k].What
			}
		}
	}
	for k := range known {
		if known[k].Kind == "known" && known[k].Property == *prop {
			fmt.Printf("KNOWN-FINDING: property=%s %s\n", *prop, known[k].What)
		}
	}
	for _, f := range reported {
		if f.Known != "" {
			continue
		}
		nViol++
		exit = 1
		fmt.Printf("VIOLATION property=%s replay=%s\n", f.V.Prop, f.Replay)
		fmt.Printf("  invariant=%s seed=%d ops_after_minimisation=%d\n  %s\n", f.V.Invariant, f.Seed, f.MinOps, f.V.Detail)
		if f.V.Expected != "" || f.V.Actual != "" {
			fmt.Printf("  expected: %s\n  actual:   %s\n", f.V.Expected, f.V.Actual)
		}
	}

	if moreFound > 0 {
		fmt.Printf("(%d further violations were found by the workers and are not listed)\n", moreFound)
	}
	// ---- evidence ------------------------------------------------------------------
	wall := time.Since(start).Seconds()
	ev := map[string]interface{}{
		"property_id": *prop,
		"tier":        *tier,
		"seed":        *seed,
		"level":       b.level,
		"wall_s":      wall,
		"violations":  nViol,
		"assumptions": assumptions(*prop),
	}
	instrLine := ""
	if ib, err := os.ReadFile(filepath.Join(*work, "instrument.log")); err == nil {
		instrLine = strings.TrimSpace(string(ib))
	}
	cov := map[string]interface{}{
		"library_sync_instrumentation":          instrLine,
		"evaluations":                           total.Runs,
		"distinct_nontrivial":                   total.DistinctN,
		"rule":                                  ruleText(*prop),
		"samples":                               samples,
		"runs_plain_build":                      plainRunsDone,
		"runs_race_build":                       raceRunsDone,
		"seed_ranges":                           seedRanges,
		"runs_per_hour":                         int(float64(total.Runs) / wall * 3600),
		"seeds_per_hour":                        int(float64(total.Runs) / wall * 3600),
		"simulated_time":                        fmt.Sprintf("%d scheduler events (logical time: redact reads no clock; one tick per scheduler decision)", total.Events),
		"events":                                total.Events,
		"task_switches":                         total.Switches,
		"ops_executed":                          total.Ops,
		"ops_started_on_recycled_printer":       total.OpsRecycled,
		"ops_during_which_another_op_completed": total.Interleaved,
		"distinct_schedule_traces":              total.Traces,
		"nontrivial_runs":                       total.Nontrivial,
		"max_tasks_in_a_run":                    total.MaxTasks,
		"yields_by_kind":                        total.Yields,
		"faults_fired":                          total.Fired,
		"pool":                                  total.Pool,
		"history_matrix_nonempty_cells":         total.MatrixCells,
		"history_matrix_cells_total":            (nClasses + 1) * nClasses,
		"history_matrix_rows_prev_class_cols_this_class": matrixMap(total),
		"returned_value_rehashes":                        total.HeldChecks,
		"sink_rereads":                                   total.SinkReads,
		"race_monitor_runs":                              raceRunsDone,
		"race_reports_confirmed":                         raceReported,
		"race_reports_not_involving_this_property":       raceIgnored,
		"determinism_spot_check":                         detDetail,
		"free_running_leg":                               freeSummary,
		"known_findings_matched":                         countKnown(reported),
		"real_vs_stub": map[string]string{
			"redact (all packages)":           "real, built from /repo working tree with -tags verif",
			"printer allocation (ppFree.New)": "real",
			"sync.Pool storage and selection": "stub: SimPool (documented contract only; per-printer release/acquire edge reproduced)",
			"Go scheduler":                    "replaced at yield points by the baton scheduler; real between them",
			"race detector":                   "real, used as monitor over serialised runs (race-build workers)",
			"fmt/reflect/regexp/strconv":      "real",
			"user methods (Stringer, error, Formatter, GoStringer, SafeFormatter, SafeMessager, error hook), io.Writers, log sink": "harness scripted objects",
		},
	}
	if len(total.PanicPlace) > 0 {
		cov["panic_placements_by_method_and_depth"] = total.PanicPlace
	}
	if len(total.PutStates) > 0 {
		cov["printer_state_at_put"] = total.PutStates
	}
	if len(total.AbsStates) > 0 {
		cov["abstract_buffer_states_reached"] = len(total.AbsStates)
		cov["abstract_buffer_states"] = topN(total.AbsStates, 400)
	}
	if len(total.Routes) > 0 {
		cov["routes_by_writer_behaviour"] = total.Routes
	}
	if len(total.Extra) > 0 {
		cov["counters"] = total.Extra
	}
	ev["coverage"] = cov
	eb, _ := json.MarshalIndent(ev, "", " ")
	if err := os.WriteFile(filepath.Join(*verif, "evidence", *prop+".json"), eb, 0o644); err != nil {
		trouble("%v", err)
	}
	fmt.Printf("%s %s: %d runs (%d plain, %d race-monitored), %d distinct non-trivial, %d events, %.1fs, violations=%d\n",
		*prop, *tier, total.Runs, plainRunsDone, raceRunsDone, total.DistinctN, total.Events, wall, nViol)
	os.Exit(exit)
}

func countKnown(fs []FoundViolation) int {
	n := 0
	for _, f := range fs {
		if f.Known != "" {
			n++
		}
	}
	return n
}

func topN(m map[string]int, n int) map[string]int {
	if len(m) <= n {
		return m
	}
	type kv struct {
		k string
		v int
	}
	var l []kv
	for k, v := range m {
		l = append(l, kv{k, v})
	}
	sort.Slice(l, func(a, b int) bool {
		if l[a].v != l[b].v {
			return l[a].v > l[b].v
		}
		return l[a].k < l[b].k
	})
	r := map[string]int{}
	for _, x := range l[:n] {
		r[x.k] = x.v
	}
	return r
}

func matrixMap(w *WorkerStats) map[string]map[string]int {
	r := map[string]map[string]int{}
	for i := range w.Matrix {
		prev := "fresh"
		if i > 0 {
			prev = classNames[i-1]
		}
		for j := range w.Matrix[i] {
			if w.Matrix[i][j] > 0 {
				if r[prev] == nil {
					r[prev] = map[string]int{}
				}
				r[prev][classNames[j]] = w.Matrix[i][j]
			}
		}
	}
	return r
}

func mergeWorker(a, b *WorkerStats) {
	a.Runs += b.Runs
	a.Nontrivial += b.Nontrivial
	a.DistinctN += b.DistinctN // seed ranges are disjoint; digests include the plan's outcomes
	a.Traces += b.Traces
	a.Events += b.Events
	a.Switches += b.Switches
	a.Ops += b.Ops
	a.OpsRecycled += b.OpsRecycled
	a.Interleaved += b.Interleaved
	addMap(a.Yields, b.Yields)
	addMap(a.Fired, b.Fired)
	a.Pool.add(&b.Pool)
	for i := range a.Matrix {
		for j := range a.Matrix[i] {
			a.Matrix[i][j] += b.Matrix[i][j]
		}
	}
	addMap(a.PanicPlace, b.PanicPlace)
	addMap(a.PutStates, b.PutStates)
	addMap(a.AbsStates, b.AbsStates)
	addMap(a.Routes, b.Routes)
	addMap(a.Extra, b.Extra)
	a.HeldChecks += b.HeldChecks
	a.SinkReads += b.SinkReads
	if b.MaxTasks > a.MaxTasks {
		a.MaxTasks = b.MaxTasks
	}
}

func tailStr(s string, n int) string {
	if len(s) > n {
		return "…" + s[len(s)-n:]
	}
	return s
}

func runCmd(env []string, timeout time.Duration, name string, args ...string) (string, int) {
	cmd := exec.Command(name, args...)
	cmd.Env = append(os.Environ(), env...)
	var buf bytes.Buffer
	cmd.Stdout = &buf
	cmd.Stderr = &buf
	if err := cmd.Start(); err != nil {
		return err.Error(), -1
	}
	done := make(chan error, 1)
	go func() { done <- cmd.Wait() }()
	select {
	case err := <-done:
		if err != nil {
			if ee, ok := err.(*exec.ExitError); ok {
				return buf.String(), ee.ExitCode()
			}
			return buf.String() + err.Error(), -1
		}
		return buf.String(), 0
	case <-time.After(timeout):
		cmd.Process.Kill()
		<-done
		return buf.String() + "\n[timeout]", -2
	}
}

func runWorker(i int, j *workerJob, prop, tier, bin, raceBin, work, replayDir string, maxsec float64) {
	out := filepath.Join(work, fmt.Sprintf("stats-%d.json", i))
	b := bin
	var env []string
	if j.race {
		b = raceBin
		logp := filepath.Join(work, fmt.Sprintf("race-%d", i))
		env = []string{"GORACE=halt_on_error=0 log_path=" + logp, "VERIF_RACE_LOG=" + logp}
	}
	args := []string{"run", "-prop", prop, "-seed", strconv.FormatInt(j.seed, 10), "-n", strconv.Itoa(j.n), "-tier", tier, "-out", out, "-replaydir", replayDir}
	if maxsec > 0 {
		args = append(args, "-maxsec", fmt.Sprint(maxsec))
	}
	to := 30 * time.Minute
	if maxsec > 0 {
		to = time.Duration(maxsec*float64(time.Second)) + 20*time.Minute
	}
	o, code := runCmd(env, to, b, args...)
	j.out, j.code = o, code
	// the race runtime makes the process exit 66 at the end when it reported anything
	if code != 0 && !(j.race && code == 66) {
		j.err = fmt.Errorf("exit code %d", code)
		return
	}
	sb, err := os.ReadFile(out)
	if err != nil {
		j.err = err
		return
	}
	var ws WorkerStats
	if err := json.Unmarshal(sb, &ws); err != nil {
		j.err = err
		return
	}
	j.stats = &ws
}

// raceReplays executes a plan in a fresh process of the race build and
// says whether the race detector reported a race (involving `filter`,
// when given).
func raceReplays(q *Plan, raceBin, work, filter string) (bool, string) {
	f, err := os.CreateTemp(work, "cand-*.json")
	if err != nil {
		trouble("%v", err)
	}
	f.Close()
	defer os.Remove(f.Name())
	qq := q.clone()
	qq.Violation = nil
	if err := qq.save(f.Name()); err != nil {
		trouble("%v", err)
	}
	out, _ := runCmd([]string{"GORACE=halt_on_error=0"}, 120*time.Second, raceBin, "replay", "-quiet", f.Name())
	if !strings.Contains(out, "WARNING: DATA RACE") {
		return false, ""
	}
	// split into reports, keep those that involve the filter
	reports := strings.Split(out, "==================")
	var keep []string
	for _, r := range reports {
		if !strings.Contains(r, "WARNING: DATA RACE") {
			continue
		}
		if filter == "" || strings.Contains(r, filter) {
			keep = append(keep, strings.TrimSpace(r))
		}
	}
	if len(keep) == 0 {
		return false, ""
	}
	return true, keep[0]
}

// raceSummary: the two access lines and the top frames of a report.
func raceSummary(report string) string {
	var out []string
	sc := bufio.NewScanner(strings.NewReader(report))
	take := 0
	for sc.Scan() {
		l := strings.TrimSpace(sc.Text())
		if strings.HasPrefix(l, "Write at") || strings.HasPrefix(l, "Read at") || strings.HasPrefix(l, "Previous") {
			// drop addresses and goroutine numbers: not stable
			f := strings.Fields(l)
			if len(f) >= 2 {
				out = append(out, f[0]+" "+f[1])
			}
			take = 2
			continue
		}
		if take > 0 && l != "" && !strings.HasPrefix(l, "/") {
			out = append(out, "  "+l)
			take--
		}
	}
	return "the race detector reported unsynchronised accesses in a serialised, seeded run: " + strings.Join(out, " | ")
}

// determinismSpot: a few seeds, executed in separate processes of both
// builds at different GOMAXPROCS; the event log and outcome digests
// must hash identically.
func determinismSpot(prop, tier string, seed int64, n int, bin, raceBin, work string) (bool, string) {
	return determinismN(prop, tier, seed, n, bin, raceBin, work, false)
}

func determinismN(prop, tier string, seed int64, n int, bin, raceBin, work string, full bool) (bool, string) {
	type cfg struct {
		bin  string
		gmp  string
		name string
	}
	cfgs := []cfg{{bin, "1", "plain/GOMAXPROCS=1"}, {bin, "16", "plain/GOMAXPROCS=16"}}
	if raceBin != "" {
		cfgs = append(cfgs, cfg{raceBin, "4", "race/GOMAXPROCS=4"})
	}
	if full {
		cfgs = append(cfgs, cfg{bin, "4", "plain/GOMAXPROCS=4"})
		if raceBin != "" {
			cfgs = append(cfgs, cfg{raceBin, "1", "race/GOMAXPROCS=1"}, cfg{raceBin, "16", "race/GOMAXPROCS=16"})
		}
	}
	outs := make([]string, len(cfgs))
	var wg sync.WaitGroup
	for i, c := range cfgs {
		wg.Add(1)
		go func(i int, c cfg) {
			defer wg.Done()
			o, code := runCmd([]string{"GOMAXPROCS=" + c.gmp, "GORACE=halt_on_error=0"}, 10*time.Minute, c.bin, "run", "-prop", prop, "-tier", tier,
				"-seed", strconv.FormatInt(seed+7777, 10), "-n", strconv.Itoa(n), "-hash", "-nomin")
			if code != 0 && code != 66 {
				outs[i] = fmt.Sprintf("exit %d: %s", code, tailStr(o, 500))
				return
			}
			var hs []string
			for _, l := range strings.Split(o, "\n") {
				if strings.HasPrefix(l, "HASH ") {
					hs = append(hs, l)
				}
			}
			outs[i] = strings.Join(hs, "\n")
		}(i, c)
	}
	wg.Wait()
	for i := 1; i < len(outs); i++ {
		if outs[i] != outs[0] || outs[0] == "" {
			return false, fmt.Sprintf("%s and %s disagree:\n%s\n---\n%s", cfgs[0].name, cfgs[i].name, outs[0], outs[i])
		}
	}
	return true, fmt.Sprintf("%d seeds x %d processes (%s): event logs and outcome digests identical", n, len(cfgs), func() string {
		var ns []string
		for _, c := range cfgs {
			ns = append(ns, c.name)
		}
		return strings.Join(ns, ", ")
	}())
}

// ---- inventory of package-level mutable state (design §0) -------------------

var expectedGlobals = map[string]bool{
	"internal/rfmt/print.go:ppFree": true, "internal/rfmt/registry.go:safeTypeRegistry": true,
	"internal/rfmt/registry.go:redactErrorFn":  true,
	"internal/markers/constants.go:StartBytes": true, "internal/markers/constants.go:EndBytes": true,
	"internal/markers/constants.go:EscapeMarkBytes": true, "internal/markers/constants.go:RedactedBytes": true,
	"internal/markers/constants.go:ReStripSensitive": true, "internal/markers/constants.go:ReStripMarkers": true,
	"internal/rfmt/helpers.go:unsafeWrapperType": true, "internal/rfmt/helpers.go:safeWrapperType": true,
	"internal/rfmt/helpers.go:redactableStringType": true, "internal/rfmt/helpers.go:redactableBytesType": true,
	"internal/buffer/buffer.go:ErrTooLarge":  true,
	"internal/rfmt/verif_on.go:VerifGetHook": true, "internal/rfmt/verif_on.go:VerifPutHook": true,
}

func inventory(root string) (all []string, unexpected []string) {
	fset := token.NewFileSet()
	filepath.Walk(root, func(path string, info os.FileInfo, err error) error {
		if err != nil || info.IsDir() || !strings.HasSuffix(path, ".go") || strings.HasSuffix(path, "_test.go") {
			return nil
		}
		f, err := parser.ParseFile(fset, path, nil, 0)
		if err != nil {
			return nil
		}
		rel, _ := filepath.Rel(root, path)
		for _, d := range f.Decls {
			gd, ok := d.(*ast.GenDecl)
			if !ok || gd.Tok != token.VAR {
				continue
			}
			for _, sp := range gd.Specs {
				vs := sp.(*ast.ValueSpec)
				for _, nm := range vs.Names {
					if nm.Name == "_" {
						continue
					}
					k := rel + ":" + nm.Name
					all = append(all, k)
					if !expectedGlobals[k] {
						unexpected = append(unexpected, k)
					}
				}
			}
		}
		return nil
	})
	sort.Strings(all)
	sort.Strings(unexpected)
	return
}

func assumptions(prop string) []string {
	root := os.Getenv("VERIF_REPO")
	if root == "" {
		root = "/repo"
	}
	all, unexp := inventory(root)
	a := []string{
		"the code between two yield points is atomic with respect to other tasks; sound iff no memory other than the pooled printer is shared, which the race monitor checks on every race-build run",
		"SimPool implements exactly the documented sync.Pool contract (any idle item or a new one; items may vanish); races that need the real pool's internals are out of reach",
		"RegisterSafeType/RegisterRedactErrorFn are called before tasks start (configuration, not schedule)",
		"renderings that print addresses (%p, pointers inside containers) are excluded from the operand universe: they are not stable across processes",
		fmt.Sprintf("package-level variables found in /repo (non-test): %d: %s", len(all), strings.Join(all, ", ")),
	}
	if len(unexp) > 0 {
		a = append(a, "package-level variables NOT in the design's inventory (reported, not a verdict): "+strings.Join(unexp, ", "))
	} else {
		a = append(a, "every package-level variable is in the design's inventory (DESIGN.md §0)")
	}
	return a
}

func ruleText(prop string) string {
	common := "one evaluation = one simulated run: a plan generated from (property, seed) — swarm configuration, 1..16 tasks with op lists, scripted user methods, writer behaviours, per-task tapes of scheduler/pool decisions — executed first op-by-op in isolation (reference) and then under the baton scheduler with SimPool. A run is distinct by the hash of its schedule trace and all op outcomes; it is non-trivial when "
	switch prop {
	case "C11":
		return common + "at least one injected user-method panic actually fired."
	case "C13":
		return common + "at least one accessor/restart call ran and the sink task re-read at least one handed-over snapshot after later writes."
	case "C15":
		return common + "at least one HelperForErrorf differential group was checked and at least one op started on a recycled printer."
	case "C16":
		return common + "at least one route group (all entry points x writer behaviours for one argument list) was executed."
	}
	return common + "at least one op started on a recycled printer (measured by the pool seam, not assumed)."
}

func cmdDeterminism(args []string) {
	fs := flag.NewFlagSet("determinism", flag.ExitOnError)
	bin := fs.String("bin", "", "")
	raceBin := fs.String("racebin", "", "")
	seeds := fs.Int("seeds", 200, "")
	seed := fs.Int64("seed", 1, "")
	work := fs.String("work", os.TempDir(), "")
	fs.Parse(args)
	bad := 0
	for _, prop := range []string{"C11", "C12", "C13", "C15", "C16"} {
		per := 25
		for off := 0; off < *seeds; off += per {
			ok, detail := determinismN(prop, "quick", *seed+int64(off)-7777, per, *bin, *raceBin, *work, true)
			if !ok {
				bad++
				fmt.Printf("DIVERGENCE %s seeds %d..: %s\n", prop, *seed+int64(off), detail)
			}
		}
		fmt.Printf("%s: %d seeds x 6 processes (plain and race builds at GOMAXPROCS 1, 4, 16) checked\n", prop, *seeds)
	}
	if bad > 0 {
		os.Exit(2)
	}
	fmt.Println("determinism: all event logs and outcome digests identical across processes, builds and GOMAXPROCS")
}
