package main

// Per-property oracles evaluated on the simulated execution of an op.

import "fmt"

// propOracles is called by the owning task after each of its ops.
func propOracles(e *env, op *Op, out *Outcome, i int) {
	// in-op differential oracles (composite ops) belong to the plan's property
	for _, c := range out.Checks {
		v := checkViolation(e.prop, c, e.t.id, i, "simulated execution")
		e.viol = append(e.viol, v)
	}
	if i >= len(e.expected) {
		return
	}
	exp := &e.expected[i]
	if !out.equal(exp) {
		if e.prop == "C12" {
			e.violateX("C12", "result-differs-from-isolated-reference",
				fmt.Sprintf("op %d (%s) returned something else than the same op executed alone on a fresh printer", i, op.K),
				exp.digest(), out.digest())
		} else {
			// a history/schedule dependence: C12's business, counted, not reported here
			e.stats.Extra["ref_mismatch_seen_not_reported_by_this_check"]++
		}
	}
}
