package main

// Per-property oracles evaluated on the simulated execution of an op.

import "fmt"

// propOracles is called by the owning task after each of its ops.
func propOracles(e *env, op *Op, out *Outcome, i int) {
	// in-op differential oracles (composite ops) belong to the plan's property
	for _, c := range out.Checks {
		v := checkViolation(e.prop, c, e.t.id, i, "simulated execution")
		e.viol = append(e.viol, v)
	}
	if e.prop == "C11" && op.K != "panicx" && out.Panic != "" && !hasPanickingWriter(op) {
		e.violateX("C11", "call-panicked", fmt.Sprintf("a %s call panicked although no participant is allowed to make it: %s", op.K, out.Panic), "", out.Panic)
		e.viol[len(e.viol)-1].Class = op.K + ":" + panicShape(out.Panic)
	}
	if i >= len(e.expected) {
		return
	}
	exp := &e.expected[i]
	if !out.equal(exp) {
		if e.prop == "C12" {
			e.violateX("C12", "result-differs-from-isolated-reference",
				fmt.Sprintf("op %d (%s) returned something else than the same op executed alone on a fresh printer", i, op.K),
				exp.digest(), out.digest())
		} else {
			// a history/schedule dependence: C12's business, counted, not reported here
			e.stats.Extra["ref_mismatch_seen_not_reported_by_this_check"]++
		}
	}
}

// hasPanickingWriter: a writer that panics legitimately takes the call
// down with it (the property speaks of user *methods*, which are
// contained; a panicking io.Writer is not one of them).
func hasPanickingWriter(op *Op) bool {
	s := &sites{}
	s.walkOp(op)
	// a panic payload whose own printing panics propagates
	for _, sl := range s.steps {
		for i := range *sl {
			st := &(*sl)[i]
			if st.A == "pa" && len(st.V) > 0 {
				for j := range st.V[0].P {
					if st.V[0].P[j].A == "pa" {
						return true
					}
				}
			}
		}
	}
	for _, o := range s.ops {
		if o.W != nil && o.W.Kind == "panic" {
			return true
		}
		if o.PT != nil && o.PT.Nested {
			return true
		}
		// the body of Sprintfn is not one of the contained user methods:
		// a panic raised directly in it propagates
		if o.K == "sprintfn" {
			for i := range o.S {
				if o.S[i].A == "pa" {
					return true
				}
			}
		}
	}
	return false
}

// panicShape drops the numbers from a panic description.
func panicShape(s string) string {
	var sb []byte
	for i := 0; i < len(s) && len(sb) < 80; i++ {
		if s[i] >= '0' && s[i] <= '9' {
			continue
		}
		sb = append(sb, s[i])
	}
	return string(sb)
}
