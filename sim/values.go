package main

// The operand universe: every user-implemented interface that redact
// can call is a harness type that interprets a small script taken from
// the plan. Harness types hold nothing but an integer identity, so that
// printing them with any verb never prints an address (runs must be
// byte-identical across processes).

import (
	"fmt"
	"io"
	"math"
	"reflect"
	"strconv"
	"strings"

	"github.com/cockroachdb/redact"
	"github.com/cockroachdb/redact/interfaces"
)

type simStringer struct{ ID int }
type simError struct{ ID int }
type simWrapErr struct{ ID int }
type simFormatter struct{ ID int }
type simGoStringer struct{ ID int }
type simSafeFmt struct{ ID int }
type simSafeMsg struct{ ID int }
type simErrFmt struct{ ID int }
type simErrSafeFmt struct{ ID int }
type simErrStr struct{ ID int }
type simSafeVal struct{ ID int }
type simHookErr struct{ ID int }
type simRegSafe struct{ ID int }
type simPtrStringer struct{ ID int }
type simPtrError struct{ ID int }
type simStruct struct {
	A int
	B string
	C interface{}
}
type simRegSafeInt int

// named non-struct types with methods; the identity travels in the value
type simList []int         // simList{ID}; the nil list uses identity -2
type simMap map[string]int // simMap{"id": ID}
type simInt int            // simInt(ID)
type simFmtStr string      // simFmtStr("<ID>")

func (l simList) id() int {
	if len(l) == 0 {
		return -2
	}
	return l[0]
}
func (l simList) String() string { return curEnv().strMethod(l.id(), "String") }
func (m simMap) Error() string   { return curEnv().strMethod(m["id"], "Error") }
func (i simInt) String() string  { return curEnv().strMethod(int(i), "String") }
func (s simFmtStr) Format(f fmt.State, verb rune) {
	id, _ := strconv.Atoi(string(s))
	curEnv().fmtMethod(id, "Format", f, verb)
}

type simPtrErr2 struct {
	ID  int
	Msg string
}

func (s *simPtrErr2) Error() string { return s.Msg }

type simPlainErr struct {
	ID  int
	Msg string
}

func (s simPlainErr) Error() string { return s.Msg }

func (s simStringer) String() string     { return curEnv().strMethod(s.ID, "String") }
func (s simError) Error() string         { return curEnv().strMethod(s.ID, "Error") }
func (s simWrapErr) Error() string       { return curEnv().strMethod(s.ID, "Error") }
func (s simWrapErr) Unwrap() error       { return curEnv().unwrap(s.ID) }
func (s simGoStringer) GoString() string { return curEnv().strMethod(s.ID, "GoString") }
func (s simSafeMsg) SafeMessage() string { return curEnv().strMethod(s.ID, "SafeMessage") }
func (s simErrFmt) Error() string        { return string(curEnv().def(s.ID).R) }
func (s simErrSafeFmt) Error() string    { return string(curEnv().def(s.ID).R) }
func (s simErrStr) Error() string        { return curEnv().strMethod(s.ID, "Error") }
func (s simErrStr) String() string       { return "str:" + string(curEnv().def(s.ID).R) }
func (s simSafeVal) SafeValue()          {}
func (s simHookErr) Error() string       { return string(curEnv().def(s.ID).R) }
func (s simSafeVal) String() string      { return curEnv().strMethod(s.ID, "String") }
func (s simRegSafe) String() string      { return curEnv().strMethod(s.ID, "String") }

// value receivers on purpose: calling them through a nil pointer panics
// with a nil dereference, which fmt and redact report as <nil>.
func (s simPtrStringer) String() string { return curEnv().strMethod(s.ID, "String") }
func (s simPtrError) Error() string     { return curEnv().strMethod(s.ID, "Error") }

func (s simFormatter) Format(f fmt.State, verb rune) { curEnv().fmtMethod(s.ID, "Format", f, verb) }
func (s simErrFmt) Format(f fmt.State, verb rune)    { curEnv().fmtMethod(s.ID, "Format", f, verb) }
func (s simSafeFmt) SafeFormat(p redact.SafePrinter, verb rune) {
	curEnv().safeFmtMethod(s.ID, "SafeFormat", p, verb)
}
func (s simErrSafeFmt) SafeFormat(p redact.SafePrinter, verb rune) {
	curEnv().safeFmtMethod(s.ID, "SafeFormat", p, verb)
}

func init() {
	redact.RegisterSafeType(reflect.TypeOf(simRegSafe{}))
	redact.RegisterSafeType(reflect.TypeOf(simRegSafeInt(0)))
}

// errorHook is what RegisterRedactErrorFn installs when the plan's
// configuration asks for a hook. For harness errors that carry a
// program it runs it (under the method name "Hook"); for every other
// error it prints the message as unsafe inside a safe frame.
func errorHook(err error, p redact.SafePrinter, verb rune) {
	e := curEnv()
	e.stats.HookCalls++
	switch v := err.(type) {
	case simHookErr:
		e.safeFmtMethod(v.ID, "Hook", p, verb)
		return
	}
	// verb-sensitive, like the hooks of real error libraries
	switch verb {
	case 'v', 's':
		p.SafeString("E(")
		p.UnsafeString(err.Error())
		p.SafeString(")")
	case 'q', 'x', 'X':
		p.SafeString("E")
		p.SafeRune(redact.SafeRune(verb))
		p.SafeString("(")
		p.Printf("%"+string(verb), err.Error())
		p.SafeString(")")
	default:
		p.Printf("%%!%c(hooked %T)", verb, err)
	}
}

var scriptedKinds = map[string]bool{
	"stringer": true, "error": true, "wraperr": true, "formatter": true, "gostringer": true,
	"safefmt": true, "safemsg": true, "errfmt": true, "errsafefmt": true, "errstr": true,
	"safeval": true, "regsafe": true, "hookerr": true,
	"liststringer": true, "nilliststringer": true, "maperror": true, "intstringer": true, "strformatter": true, "nilstringer": true, "nilerror": true,
}

// build turns a descriptor into a live operand.
func (e *env) build(v *Val) interface{} {
	if scriptedKinds[v.K] {
		e.defs[v.ID] = v
	}
	switch v.K {
	case "nil":
		return nil
	case "shared":
		if e.t != nil {
			e.stats.Extra["shared_operand_uses"]++
		}
		return sharedVal(v.I)
	case "int":
		return int(v.I)
	case "i8":
		return int8(v.I)
	case "i64":
		return v.I
	case "u8":
		return uint8(v.I)
	case "i16":
		return int16(v.I)
	case "u16":
		return uint16(v.I)
	case "u32":
		return uint32(v.I)
	case "c64":
		return complex64(complex(float32(v.I), float32(v.I)/4))
	case "barr":
		// a byte array passed by value (not addressable)
		var a [5]byte
		copy(a[:], v.S)
		return a
	case "uint":
		return uint(v.I)
	case "u64":
		return uint64(v.I)
	case "f64":
		return float64(v.I) / 8
	case "f32":
		return float32(v.I) / 4
	case "cplx":
		return complex(float64(v.I), float64(v.I)/2)
	case "bool":
		return v.I != 0
	case "str":
		return string(v.S)
	case "bytes":
		return e.own([]byte(v.S))
	case "rune":
		return rune(v.I)
	case "sstr":
		return redact.SafeString(v.S)
	case "sint":
		return redact.SafeInt(v.I)
	case "suint":
		return redact.SafeUint(v.I)
	case "sfloat":
		return redact.SafeFloat(float64(v.I) / 8)
	case "srune":
		return redact.SafeRune(v.I)
	case "sbyte":
		return interfaces.SafeByte(v.I)
	case "sbytes":
		return interfaces.SafeBytes(e.own([]byte(v.S)))
	case "rs":
		return redact.RedactableString(v.S)
	case "rb":
		return redact.RedactableBytes(e.own([]byte(v.S)))
	case "safe":
		return redact.Safe(e.build(child(v)))
	case "unsafe":
		return redact.Unsafe(e.build(child(v)))
	case "slice":
		r := make([]interface{}, len(v.V))
		for i := range v.V {
			r[i] = e.build(&v.V[i])
		}
		return r
	case "strs":
		r := make([]string, len(v.V))
		for i := range v.V {
			r[i] = string(v.V[i].S)
		}
		return r
	case "ints":
		r := make([]int, len(v.V))
		for i := range v.V {
			r[i] = int(v.V[i].I)
		}
		return r
	case "rss":
		r := make([]redact.RedactableString, len(v.V))
		for i := range v.V {
			r[i] = redact.RedactableString(v.V[i].S)
		}
		return r
	case "map":
		r := make(map[string]interface{}, len(v.V))
		for i := range v.V {
			r[fmt.Sprintf("k%d", i)] = e.build(&v.V[i])
		}
		return r
	case "kmap":
		// a map whose (single) key is the child value
		return map[interface{}]interface{}{e.build(child(v)): 1}
	case "struct", "pstruct":
		s := simStruct{A: int(v.I), B: string(v.S)}
		if len(v.V) > 0 {
			s.C = e.build(&v.V[0])
		}
		if v.K == "pstruct" {
			return &s
		}
		return s
	case "ustruct":
		return simUStruct{ID: int(v.I), user: e.build(child(v))}
	case "umap":
		u := simUMap{Name: string(v.S), vals: map[string]interface{}{}}
		for i := range v.V {
			u.vals[fmt.Sprintf("k%d", i)] = e.build(&v.V[i])
		}
		return u
	case "nan":
		return math.NaN()
	case "inf":
		if v.I < 0 {
			return math.Inf(-1)
		}
		return math.Inf(1)
	case "ptrerr":
		// a non-nil pointer-typed error (direct operands only: inside a
		// container a pointer prints its address)
		return &simPtrErr2{ID: v.ID, Msg: string(v.S)}
	case "rv":
		// a reflect.Value operand: printed like the value it holds
		return reflect.ValueOf(e.build(child(v)))
	case "rvunexp":
		// a reflect.Value obtained from an unexported field: its content
		// cannot be extracted, it is printed by reflection alone
		return reflect.ValueOf(simUStruct{user: e.build(child(v))}).Field(1)
	case "rvzero":
		// the zero reflect.Value (direct operands only)
		return reflect.Value{}
	case "arrn":
		// a value of a struct type made with reflect.StructOf: a distinct Go
		// type for every n, for type diversity (per-type caches in the code
		// under test)
		return distinctTypeValue("A", int(v.I)%1500)
	case "latesafe":
		// a value of the array type that this run registers as safe right
		// before the tasks start (Config.LateReg)
		return lateRegValue()
	case "goerr":
		// a plain error; a value type, because a pointer inside a
		// container prints as an address under %d/%x
		return simPlainErr{ID: v.ID, Msg: string(v.S)}
	case "regsafeint":
		return simRegSafeInt(v.I)
	case "stringer":
		return simStringer{v.ID}
	case "error":
		return simError{v.ID}
	case "wraperr":
		return simWrapErr{v.ID}
	case "formatter":
		return simFormatter{v.ID}
	case "gostringer":
		return simGoStringer{v.ID}
	case "safefmt":
		return simSafeFmt{v.ID}
	case "safemsg":
		return simSafeMsg{v.ID}
	case "errfmt":
		return simErrFmt{v.ID}
	case "errsafefmt":
		return simErrSafeFmt{v.ID}
	case "errstr":
		return simErrStr{v.ID}
	case "safeval":
		return simSafeVal{v.ID}
	case "hookerr":
		return simHookErr{v.ID}
	case "liststringer":
		return simList{v.ID}
	case "nilliststringer":
		e.defs[-2] = v
		return simList(nil)
	case "maperror":
		return simMap{"id": v.ID}
	case "intstringer":
		return simInt(v.ID)
	case "strformatter":
		return simFmtStr(strconv.Itoa(v.ID))
	case "regsafe":
		return simRegSafe{v.ID}
	case "nilstringer":
		return (*simPtrStringer)(nil)
	case "nilerror":
		return (*simPtrError)(nil)
	case "typednilerr":
		var p *simPtrError
		return error(p)
	}
	panic("harness: unknown value kind " + v.K)
}

// simUStruct and simUMap hold values that are reachable through an
// unexported field only.
type simUStruct struct {
	ID   int
	user interface{}
}

type simUMap struct {
	Name string
	vals map[string]interface{}
}

var int8Type = reflect.TypeOf(int8(0))

// distinctTypeValue returns the value {7} of the struct type
// struct{ <prefix><n> int8 }.
func distinctTypeValue(prefix string, n int) interface{} {
	if n < 0 {
		n = -n
	}
	t := reflect.StructOf([]reflect.StructField{{Name: prefix + strconv.Itoa(n), Type: int8Type}})
	v := reflect.New(t).Elem()
	v.Field(0).SetInt(7)
	return v.Interface()
}

// The type a run registers late must be new to the process: the k-th
// run of a process uses struct{ L<k> int8 }.
var lateRegCounter int

func lateRegValue() interface{} { return distinctTypeValue("L", lateRegCounter) }

func child(v *Val) *Val {
	if len(v.V) == 0 {
		return &Val{K: "nil"}
	}
	return &v.V[0]
}

func (e *env) buildAll(vs []Val) []interface{} {
	if len(vs) == 1 && vs[0].K == "shared" {
		// an argument list that several tasks pass as args... at the same
		// time: the callee sees the caller's slice itself
		if list, ok := sharedVal(vs[0].I).([]interface{}); ok && sharedIsArgs(vs[0].I) {
			if e.t != nil {
				e.stats.Extra["shared_argument_lists_passed"]++
			}
			return list
		}
	}
	r := make([]interface{}, len(vs))
	for i := range vs {
		r[i] = e.build(&vs[i])
	}
	return r
}

func (e *env) def(id int) *Val {
	d := e.defs[id]
	if d == nil {
		panic(fmt.Sprintf("harness: no definition for scripted value %d", id))
	}
	return d
}

func (e *env) unwrap(id int) error {
	d := e.def(id)
	if len(d.V) == 0 {
		return nil
	}
	if err, ok := e.build(&d.V[0]).(error); ok {
		return err
	}
	return nil
}

// rtPanic raises a genuine runtime error.
func rtPanic(kind int64) {
	switch kind {
	case 0:
		var m map[string]int
		m["x"] = 1
	case 1:
		var s []int
		_ = s[int(kind)+2]
	default:
		var p *simStruct
		_ = p.A
	}
}

// doPanic raises the payload of a "pa" step.
func (e *env) doPanic(st *Step) {
	e.fired(fPanic)
	if len(st.V) == 0 {
		panic(string(st.S))
	}
	pv := &st.V[0]
	switch pv.K {
	case "rterr":
		rtPanic(pv.I)
	case "nilpanic":
		var err error
		panic(err)
	}
	panic(e.build(pv))
}

// strMethod runs the program of a string-returning user method.
func (e *env) strMethod(id int, method string) string {
	d := e.def(id)
	e.enter(method)
	defer e.leave()
	ret := string(d.R)
	for i := range d.P {
		st := &d.P[i]
		switch st.A {
		case "y":
			e.yield(yCallback)
		case "re":
			e.reenter(st.O)
		case "pa":
			e.doPanic(st)
		default:
			panic("harness: step " + st.A + " not valid in a string method")
		}
	}
	return ret
}

// fmtMethod runs the program of a Format method.
func (e *env) fmtMethod(id int, method string, f fmt.State, verb rune) {
	d := e.def(id)
	e.enter(method)
	defer e.leave()
	for i := range d.P {
		st := &d.P[i]
		switch st.A {
		case "w":
			f.Write([]byte(st.S))
		case "ws":
			io.WriteString(f, string(st.S))
		case "ff":
			fmt.Fprintf(f, string(st.S), e.buildAll(st.V)...)
		case "fl":
			// the values are only meaningful when ok is true (as in fmt,
			// a recycled printer may hold a stale, unset width)
			w, wok := f.Width()
			p, pok := f.Precision()
			if !wok {
				w = -1
			}
			if !pok {
				p = -1
			}
			fmt.Fprintf(f, "[%c w=%d/%v p=%d/%v", verb, w, wok, p, pok)
			for _, c := range "+-# 0z" { // 'z': no such flag, never set
				if f.Flag(int(c)) {
					fmt.Fprintf(f, " %c", c)
				}
			}
			io.WriteString(f, "]")
		case "mf":
			_, format := redact.MakeFormat(f, verb)
			fmt.Fprintf(f, "<%s>", format)
		case "y":
			e.yield(yCallback)
		case "re":
			out := e.reenter(st.O)
			io.WriteString(f, out.stripped())
		case "pa":
			e.doPanic(st)
		default:
			panic("harness: step " + st.A + " not valid in a Format method")
		}
	}
}

// safeFmtMethod runs the program of a SafeFormat method (or of the
// error hook).
func (e *env) safeFmtMethod(id int, method string, p redact.SafePrinter, verb rune) {
	d := e.def(id)
	e.enter(method)
	defer e.leave()
	for i := range d.P {
		e.safeStep(&d.P[i], p, p, verb)
	}
}

// safeStep executes one step against a SafeWriter (and, when available,
// the fmt.State side of a SafePrinter).
func (e *env) safeStep(st *Step, w redact.SafeWriter, f fmt.State, verb rune) {
	switch st.A {
	case "ss":
		w.SafeString(redact.SafeString(st.S))
	case "si":
		w.SafeInt(redact.SafeInt(st.I))
	case "su":
		w.SafeUint(redact.SafeUint(st.I))
	case "sf":
		w.SafeFloat(redact.SafeFloat(float64(st.I) / 8))
	case "sr":
		w.SafeRune(redact.SafeRune(st.I))
	case "sy":
		w.SafeByte(interfaces.SafeByte(st.I))
	case "sbs":
		w.SafeBytes(interfaces.SafeBytes(st.S))
	case "pr":
		w.Print(e.buildAll(st.V)...)
	case "prr":
		// user code that recovers from whatever propagates out of the
		// nested Print (a nested panic), and carries on
		func() {
			defer func() {
				if r := recover(); r != nil {
					if s, ok := r.(string); ok && strings.HasPrefix(s, "harness:") {
						panic(r)
					}
				}
			}()
			w.Print(e.buildAll(st.V)...)
		}()
	case "pf":
		w.Printf(string(st.S), e.buildAll(st.V)...)
	case "us":
		w.UnsafeString(string(st.S))
	case "uy":
		w.UnsafeByte(byte(st.I))
	case "ubs":
		w.UnsafeBytes([]byte(st.S))
	case "ur":
		w.UnsafeRune(rune(st.I))
	case "w":
		if f != nil {
			f.Write([]byte(st.S))
		}
	case "ws":
		if f != nil {
			io.WriteString(f, string(st.S))
		}
	case "fl":
		if f != nil {
			wd, wok := f.Width()
			pr, pok := f.Precision()
			if !wok {
				wd = -1
			}
			if !pok {
				pr = -1
			}
			w.Printf("[%c w=%d/%v p=%d/%v]", verb, wd, wok, pr, pok)
		}
	case "y":
		e.yield(yCallback)
	case "re":
		out := e.reenter(st.O)
		w.Print(redact.RedactableString(out.Out))
	case "pa":
		e.doPanic(st)
	default:
		panic("harness: step " + st.A + " not valid against a SafeWriter")
	}
}
