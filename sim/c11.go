package main

// C11 — printing never fails; user-method panics are contained.
//
// The composite op "panicx" carries a base call (op.In) whose operand
// tree contains one scripted *target* value, and a placement: raise
// this payload before step K of the target's method program. All
// placements K = 0..L of a program of length L are enumerated by the
// generator (crash-point enumeration; "crash" = the user's code
// panics).
//
// Oracle (compositional, fault-free twin): the output of the faulted
// call must equal the output of the *twin* call — same call, target's
// program truncated to its first K steps, after which it emits a unique
// token instead of panicking — with the token replaced by the panic
// report, up to merging of adjacent envelopes. Everything before and
// after the report, including what the method itself wrote before
// panicking, is therefore required to be intact, for every placement.

import (
	"fmt"
	"math"
	"os"
	"reflect"
	"regexp"
	"strconv"
	"strings"
	"unicode/utf8"
	"unsafe"

	"github.com/cockroachdb/redact"
)

const twinToken = "ZqTOK7Zq"
const payloadToken = "PAYq9"

var writerMethods = map[string]bool{"Format": true, "SafeFormat": true, "Hook": true}

// findVal returns the scripted value with the given ID in the op tree.
func findVal(op *Op, id int) *Val {
	var found *Val
	var walkV func(v *Val)
	var walkS func(ss []Step)
	var walkO func(o *Op)
	walkV = func(v *Val) {
		if v.ID == id && scriptedKinds[v.K] {
			found = v
		}
		for i := range v.V {
			walkV(&v.V[i])
		}
		walkS(v.P)
	}
	walkS = func(ss []Step) {
		for i := range ss {
			for j := range ss[i].V {
				walkV(&ss[i].V[j])
			}
			if ss[i].O != nil {
				walkO(ss[i].O)
			}
		}
	}
	walkO = func(o *Op) {
		for i := range o.A {
			walkV(&o.A[i])
		}
		walkS(o.S)
		walkS(o.Dst)
		if o.In != nil {
			walkO(o.In)
		}
	}
	walkO(op)
	return found
}

func cloneOp(op *Op) *Op {
	p := &Plan{Tasks: []Task{{Ops: []Op{*op}}}}
	q := p.clone()
	return &q.Tasks[0].Ops[0]
}

// faultedOp: the base call with the panic placed.
func faultedOp(op *Op) *Op {
	in := cloneOp(op.In)
	pt := op.PT
	t := findVal(in, pt.ID)
	if t == nil || pt.NilRcv {
		return in
	}
	k := pt.K
	if k > len(t.P) {
		k = len(t.P)
	}
	t.P = append(append([]Step{}, t.P[:k]...), Step{A: "pa", V: pt.Payload})
	return in
}

// twinOp: the fault-free twin. ok=false when the target cannot be found.
func twinOp(op *Op) (*Op, bool) {
	in := cloneOp(op.In)
	pt := op.PT
	t := findVal(in, pt.ID)
	if t == nil {
		return in, false
	}
	k := pt.K
	if k > len(t.P) {
		k = len(t.P)
	}
	t.P = append([]Step{}, t.P[:k]...)
	switch pt.Method {
	case "SafeFormat", "Hook":
		t.P = append(t.P, Step{A: "ss", S: twinToken})
	case "Format":
		t.P = append(t.P, Step{A: "ws", S: twinToken})
	default:
		t.R = twinToken
	}
	if pt.NilRcv {
		// the twin of a nil receiver is a live value of the analogous kind
		switch t.K {
		case "nilstringer":
			t.K = "stringer"
		case "nilerror":
			t.K = "error"
		}
	}
	return in, true
}

// fmtPanicName asks std fmt what it calls the method in its own panic
// report (fmt is the reference for its own diagnostics).
func (e *env) fmtPanicName(method string) string {
	var probe interface{}
	id := 1 << 30
	e.defs[id] = &Val{K: "probe", ID: id, P: []Step{{A: "pa", S: "X"}}}
	switch method {
	case "String":
		probe = simStringer{id}
	case "Error":
		probe = simError{id}
	case "Format":
		probe = simFormatter{id}
	case "GoString":
		probe = simGoStringer{id}
	default:
		return ""
	}
	e.shadow++
	defer func() { e.shadow--; delete(e.defs, id) }()
	d := "%v"
	if method == "GoString" {
		d = "%#v"
	}
	s := fmt.Sprintf(d, probe)
	i := strings.Index(s, "(PANIC=")
	j := strings.Index(s, " method: ")
	if i < 0 || j < i {
		return ""
	}
	return s[i+len("(PANIC=") : j]
}

var reportRe = regexp.MustCompile(`%!(.)\(PANIC=([A-Za-z]+) method: `)

// tokenAs says how the twin's token shows up in the twin's output.
func tokenAs(pt *PanicTarget) string {
	if writerMethods[pt.Method] {
		return twinToken
	}
	d := pt.Dirv
	if d == "" {
		d = "%v"
	}
	if strings.HasSuffix(d, "w") {
		d = d[:len(d)-1] + "v"
	}
	if pt.Method == "GoString" {
		d = strings.Replace(d[:len(d)-1], "#", "", 1) + "s"
	}
	return fmt.Sprintf(d, twinToken)
}

// expectedFromTwin builds the expected normalised output of the
// faulted call from the twin's output.
func expectedFromTwin(twinOut, payloadOut string, pt *PanicTarget, name string) (string, string) {
	T, ok := segs(twinOut)
	if !ok {
		if os.Getenv("VERIF_DEBUG") != "" {
			fmt.Fprintf(os.Stderr, "DEBUG ill-formed twin output: %q\n", twinOut)
		}
		return "", "twin output is not a well-formed redactable string"
	}
	tok := tokenAs(pt)
	at, cnt := -1, 0
	for i := range T {
		c := strings.Count(T[i].text, tok)
		cnt += c
		if c > 0 && at < 0 {
			at = i
		}
	}
	if cnt != 1 {
		return "", fmt.Sprintf("token %q occurs %d times in the twin's output", tok, cnt)
	}
	k := strings.Index(T[at].text, tok)
	left, right := T[at].text[:k], T[at].text[k+len(tok):]
	verb := pt.Verb
	if verb == "w" {
		verb = "v"
	}
	head := "%!" + verb + "(PANIC=" + name + " method: "
	var rep []seg
	ctxUnsafe := pt.Ctx == "unsafe"
	switch {
	case pt.NilRcv:
		rep = []seg{{ctxUnsafe, "<nil>"}}
	default:
		// head and ")" are written in the mode in force where the panic
		// is caught; the payload was rendered (in isolation) under the
		// same override, so its own segment structure (including line
		// breaks, which split envelopes) is kept
		ps, _ := segs(payloadOut)
		rep = append([]seg{{ctxUnsafe, head}}, ps...)
		rep = append(rep, seg{ctxUnsafe, ")"})
	}
	// The one seam rule the expectation has to know: text that ends in an
	// invalid (e.g. truncated) UTF-8 sequence gains a '?' when the mode is
	// switched right after it. In the twin the token follows in the same
	// mode; in the faulted call the report's head may not.
	if len(rep) > 0 && rep[0].unsafe != T[at].unsafe && left != "" {
		if r, n := utf8.DecodeLastRuneInString(left); n == 1 && r == utf8.RuneError {
			left += "?"
		}
	}
	var exp []seg
	exp = append(exp, T[:at]...)
	exp = append(exp, seg{T[at].unsafe, left})
	exp = append(exp, rep...)
	exp = append(exp, seg{T[at].unsafe, right})
	exp = append(exp, T[at+1:]...)
	return segsString(mergeSegs(exp)), ""
}

func init() {
	opKinds["panicx"] = execPanicX
}

func execPanicX(e *env, op *Op, out *Outcome) {
	pt := op.PT
	if pt == nil || op.In == nil {
		return
	}
	firedBefore := e.stats.Fired[fPanic]
	res := e.execOp(faultedOp(op))
	if e.stats.Fired[fPanic] == firedBefore && !pt.NilRcv {
		// the target's method was never invoked (e.g. unreachable through
		// an unexported field): nothing was injected, nothing to judge
		e.stats.Extra["c11_placement_not_reached"]++
		out.Out, out.Panic = res.Out, res.Panic
		return
	}
	out.Out, out.Panic, out.N, out.Err, out.ErrArg, out.Writes = res.Out, res.Panic, res.N, res.Err, res.ErrArg, res.Writes
	if e.t != nil {
		e.stats.PanicPlace[fmt.Sprintf("%s/depth%d/%s", pt.Method, pt.Depth, pt.Ctx)]++
	}
	fail := func(inv, detail string) {
		out.Checks = append(out.Checks, "C11/"+inv+"#"+pt.Method+": "+detail)
	}
	// ---- oracle 1: no escape ------------------------------------------------
	if pt.Nested {
		if res.Panic == "" {
			fail("nested-panic-did-not-propagate", "a panic raised while printing the panic payload must propagate, as in fmt")
		}
		return
	}
	if pt.NestedContained {
		if res.Panic != "" {
			fail("user-method-panic-escaped", fmt.Sprintf("a nested panic inside an enclosing user method must be contained by the enclosing printer: %s", res.Panic))
		}
		return
	}
	if res.Panic != "" {
		fail("user-method-panic-escaped", fmt.Sprintf("panic in %s method (placement %d) was not contained: %s", pt.Method, pt.K, res.Panic))
		return
	}
	// ---- expectation: computed in the isolated reference execution ----------
	var exp, why string
	if e.t == nil {
		tw, ok := twinOp(op)
		if !ok {
			why = "target not found"
		} else {
			two := e.execOp(tw)
			var pay Outcome
			if len(pt.Payload) > 0 && !pt.NilRcv {
				// the payload is rendered under the override that is in
				// force where the panic is caught
				pv := pt.Payload[0]
				switch pv.K {
				case "rterr", "nilpanic":
					// obtain the payload's rendering from the real thing
					pay.Out = e.renderRuntimePanic(&pv, pt.Ctx)
				default:
					switch pt.Ctx {
					case "safe", "unsafe":
						pv = Val{K: pt.Ctx, V: []Val{pv}}
					}
					pay = e.execOp(&Op{K: "sprint", A: []Val{pv}})
				}
			}
			name := e.fmtPanicName(pt.Method)
			if name == "" && !pt.NilRcv {
				// no fmt analogue (SafeFormat, SafeMessage, hook): the
				// method name is whatever safe word the report carries
				if m := reportRe.FindStringSubmatch(safeOrAll(res.Out, pt)); m != nil {
					name = m[2]
				} else {
					fail("panic-not-reported-in-place", fmt.Sprintf("no %%!verb(PANIC=… report found for the %s method panic (placement %d)", pt.Method, pt.K))
					return
				}
			}
			if two.Panic != "" {
				why = "twin panicked: " + two.Panic
			} else {
				exp, why = expectedFromTwin(two.Out, pay.Out, pt, name)
			}
		}
		out.Extra = append(out.Extra, "exp="+exp, "why="+why)
	} else if e.opIdx < len(e.expected) {
		x := e.expected[e.opIdx].Extra
		if len(x) >= 2 {
			exp, why = strings.TrimPrefix(x[0], "exp="), strings.TrimPrefix(x[1], "why=")
			out.Extra = append(out.Extra, x[0], x[1])
		} else {
			why = "no expectation recorded"
		}
	}
	if why != "" {
		e.stats.Extra["c11_untwinnable: "+firstWords(why, 6)]++
		return
	}
	e.stats.Extra["c11_placements_checked"]++
	// ---- oracle 2/4: containment, nothing lost --------------------------------
	if got := normalize(res.Out); got != exp {
		fail("panic-report-or-surrounding-text-wrong",
			fmt.Sprintf("%s method panicking before step %d (ctx %s, verb %s): output differs from the fault-free twin with its token replaced by the panic report; expected %q got %q",
				pt.Method, pt.K, pt.Ctx, pt.Verb, clip(exp), clip(got)))
		return
	}
	// ---- oracle 3: payload side ---------------------------------------------------
	if pt.Ctx == "plain" && !pt.NilRcv && strings.Contains(safeText(res.Out), payloadToken) {
		fail("panic-payload-not-unsafe", "the panic payload appears outside redaction envelopes although no safe override is in force")
	}
}

func safeOrAll(s string, pt *PanicTarget) string {
	if pt.Ctx == "unsafe" {
		return redactableStrip(s)
	}
	return safeText(s)
}

func firstWords(s string, n int) string {
	f := strings.Fields(s)
	if len(f) > n {
		f = f[:n]
	}
	return strings.Join(f, " ")
}

// renderRuntimePanic obtains the redactable rendering of a genuine
// runtime error value by catching it and printing it in isolation.
func (e *env) renderRuntimePanic(pv *Val, ctx string) (s string) {
	var val interface{}
	func() {
		defer func() { val = recover() }()
		if pv.K == "nilpanic" {
			var err error
			panic(err)
		}
		rtPanic(pv.I)
	}()
	switch ctx {
	case "safe":
		val = redact.Safe(val)
	case "unsafe":
		val = redact.Unsafe(val)
	}
	return string(redact.Sprint(val))
}

// ---- conservation: "no call loses output that was already written" ----------
//
// For payloads that need no escaping (valid UTF-8, no marker runes) the
// output with markers stripped must be exactly the concatenation of what
// was written, whatever the sequence of safe/unsafe writes and whatever
// runes meet at the seams between them.

func init() {
	opKinds["conserve"] = execConserve
	opKinds["runesweep"] = execRuneSweep
}

func pieceText(st *Step) (string, bool) {
	switch st.A {
	case "ss", "us", "sbs", "ubs", "wr", "wS":
		return string(st.S), true
	case "sr", "ur", "wR":
		r := rune(st.I)
		if !utf8.ValidRune(r) {
			r = utf8.RuneError
		}
		return string(r), true
	case "sy", "uy", "wb":
		return string([]byte{byte(st.I)}), true
	case "si", "su":
		return strconv.FormatInt(st.I, 10), true
	}
	return "", false
}

func execConserve(e *env, op *Op, out *Outcome) {
	var want strings.Builder
	for i := range op.S {
		if t, ok := pieceText(&op.S[i]); ok {
			want.WriteString(t)
		}
	}
	var res Outcome
	if op.N == 1 {
		res = e.execOp(&Op{K: "sprintfn", S: op.S})
	} else {
		res = e.execOp(&Op{K: "builder", S: op.S})
	}
	out.Out, out.Panic = res.Out, res.Panic
	if e.t != nil {
		e.stats.Extra["c11_conservation_checked"]++
	}
	if res.Panic != "" {
		out.Checks = append(out.Checks, "C11/call-panicked#conserve: "+res.Panic)
		return
	}
	if got := redactableStrip(res.Out); got != want.String() {
		out.Checks = append(out.Checks, fmt.Sprintf("C11/written-output-lost#conserve: the writes add up to %q but the output, markers stripped, is %q (full output %q)", clip(want.String()), clip(got), clip(res.Out)))
	}
}

// execRuneSweep walks a contiguous range of rune values, each written
// in several seam situations, and checks conservation for each.
func execRuneSweep(e *env, op *Op, out *Outcome) {
	start, n := rune(op.N), 256
	if len(op.A) > 0 {
		n = int(op.A[0].I)
	}
	var bad []string
	note := func(r rune, what, got, want string) {
		if len(bad) < 3 {
			bad = append(bad, fmt.Sprintf("rune %#x %s: stripped output %q, want %q", r, what, got, want))
		}
	}
	for r := start; r < start+rune(n); r++ {
		enc := r
		if !utf8.ValidRune(r) {
			enc = utf8.RuneError
		}
		txt := string(enc)
		if txt == mStart || txt == mEnd {
			txt = "?"
		}
		func() {
			defer func() {
				if x := recover(); x != nil {
					bad = append(bad, fmt.Sprintf("rune %#x: call panicked: %v", r, x))
				}
			}()
			var sb redact.StringBuilder
			sb.SafeString("a")
			sb.SafeRune(redact.SafeRune(r))
			sb.UnsafeString("x")
			sb.UnsafeRune(r)
			sb.SafeString("b")
			sb.UnsafeRune(r)
			sb.UnsafeRune(r)
			sb.SafeRune(redact.SafeRune(r))
			if got, want := redactableStrip(string(sb.RedactableString())), "a"+txt+"x"+txt+"b"+txt+txt+txt; got != want {
				note(r, "in a StringBuilder", got, want)
			}
			s := string(redact.Sprintf("%c|%s", r, string(enc)+"z"))
			if got, want := redactableStrip(s), txt+"|"+txt+"z"; got != want {
				note(r, "through Sprintf", got, want)
			}
		}()
	}
	if e.t != nil {
		e.stats.Extra["c11_runes_swept"] += n
	}
	out.Out = fmt.Sprintf("swept %#x..%#x", start, start+rune(n)-1)
	for _, b := range bad {
		out.Checks = append(out.Checks, "C11/written-output-lost#runesweep: "+b)
	}
}

// ---- odd format strings ------------------------------------------------------
//
// "every format string is accepted and rendered": directives assembled
// from a grammar of flags, argument indexes (0, too large, empty,
// non-numeric, unterminated), widths and precisions (numbers, *, too
// large) and verbs (ASCII, multi-byte, none at the very end), applied to
// ints, floats and clean strings through every printf-style route. No
// call may panic, and the literal text around the directives must come
// out intact and in order. (The rendering of the directives themselves
// is C04's business: redact forked an older fmt, whose bad-verb
// reports differ in detail from today's.)

func init() { opKinds["fmtsweep"] = execFmtSweep }

func execFmtSweep(e *env, op *Op, out *Outcome) {
	format := string(op.F)
	routes := []struct {
		name string
		op   Op
	}{
		{"Sprintf", Op{K: "sprintf", F: op.F, A: op.A}},
		{"Fprintf", Op{K: "fprintf", F: op.F, A: op.A, W: &WSpec{Kind: "ok"}}},
		{"HelperForErrorf", Op{K: "errorf", F: op.F, A: op.A}},
		{"StringBuilder.Printf", Op{K: "builder", S: []Step{{A: "pf", S: op.F, V: op.A}}}},
		{"SafePrinter.Printf", Op{K: "sprintfn", S: []Step{{A: "pf", S: op.F, V: op.A}}}},
	}
	for _, r := range routes {
		res := e.execOp(&r.op)
		if r.name == "Sprintf" {
			out.Out = res.Out
		}
		if res.Panic != "" {
			out.Checks = append(out.Checks, fmt.Sprintf("C11/call-panicked#fmtsweep/%s: format %q: %s", r.name, format, res.Panic))
			continue
		}
		// the literal text between the directives must come out, in order
		got := redactableStrip(res.Out)
		pos := 0
		for i := range op.S {
			lit := string(op.S[i].S)
			k := strings.Index(got[pos:], lit)
			if k < 0 {
				out.Checks = append(out.Checks, fmt.Sprintf("C11/written-output-lost#fmtsweep/%s: format %q: literal %q (#%d) is missing from the output %q", r.name, format, lit, i, clip(got)))
				break
			}
			pos += k + len(lit)
		}
	}
	if e.t != nil {
		e.stats.Extra["c11_odd_formats_checked"]++
	}
}

// ---- the helpers that are not Sprint*/Fprint* -----------------------------------

func init() { opKinds["helpers"] = execHelpers }

func execHelpers(e *env, op *Op, out *Outcome) {
	fail := func(what, detail string) {
		out.Checks = append(out.Checks, "C11/written-output-lost#helpers/"+what+": "+detail)
	}
	defer func() {
		if r := recover(); r != nil {
			out.Checks = append(out.Checks, fmt.Sprintf("C11/call-panicked#helpers: %v", r))
		}
	}()
	var parts []redact.RedactableString
	var plain []string
	for i := range op.A {
		s := string(op.A[i].S)
		// EscapeBytes / EscapeMarkers on every piece
		eb := redact.EscapeBytes([]byte(s))
		if got := redactableStrip(string(eb)); op.N == 1 && got != s {
			fail("EscapeBytes", fmt.Sprintf("EscapeBytes(%q) = %q: content lost", s, string(eb)))
		}
		if em := redact.EscapeMarkers([]byte(s)); op.N == 1 && string(em) != s {
			fail("EscapeMarkers", fmt.Sprintf("EscapeMarkers(%q) = %q", s, string(em)))
		}
		parts = append(parts, eb.ToString())
		if rt := eb.ToString().ToBytes().ToString(); rt != eb.ToString() {
			fail("ToBytes/ToString", "round trip changed the value")
		}
		plain = append(plain, s)
	}
	delim := redact.RedactableString(op.F)
	j := redact.Join(delim, parts)
	out.Out = string(j)
	if op.N == 1 {
		if got, want := redactableStrip(string(j)), strings.Join(plain, redactableStrip(string(op.F))); got != want {
			fail("Join", fmt.Sprintf("Join(%q, %d parts) stripped = %q, want %q", string(op.F), len(parts), clip(got), clip(want)))
		}
	}
	// JoinTo into a SafePrinter, with the slice of strings unsafe
	jt := redact.Sprintfn(func(w redact.SafePrinter) { redact.JoinTo(w, delim, plain) })
	if op.N == 1 {
		if got, want := redactableStrip(string(jt)), strings.Join(plain, redactableStrip(string(op.F))); got != want {
			fail("JoinTo", fmt.Sprintf("JoinTo stripped = %q, want %q", clip(got), clip(want)))
		}
	}
	cp := append([]redact.RedactableString{}, parts...)
	redact.SortStrings(cp)
	if len(cp) != len(parts) {
		fail("SortStrings", "length changed")
	}
	_ = redact.StringWithoutMarkers(j)
	if e.t != nil {
		e.stats.Extra["c11_helper_groups_checked"]++
	}
}

// ---- conservation for arbitrary byte strings ------------------------------------
//
// Escaping only ever replaces a marker by '?' or inserts a '?' next to a
// dangling partial UTF-8 sequence. So for ANY payload bytes: remove every
// '?' and every marker rune from both the concatenation of what was
// written and the output - the results must be equal. (Weaker than the
// exact conservation above, but it covers "every byte string".)

func init() { opKinds["conserveany"] = execConserveAny }

func looseNorm(s string) string {
	s = strings.ReplaceAll(s, "?", "")
	for {
		t := strings.ReplaceAll(strings.ReplaceAll(s, mStart, ""), mEnd, "")
		if t == s {
			return s
		}
		s = t
	}
}

func execConserveAny(e *env, op *Op, out *Outcome) {
	var want strings.Builder
	for i := range op.S {
		if t, ok := pieceTextAny(&op.S[i]); ok {
			want.WriteString(t)
		}
	}
	var res Outcome
	if op.N == 1 {
		res = e.execOp(&Op{K: "sprintfn", S: op.S})
	} else {
		res = e.execOp(&Op{K: "builder", S: op.S})
	}
	out.Out, out.Panic = res.Out, res.Panic
	if e.t != nil {
		e.stats.Extra["c11_loose_conservation_checked"]++
	}
	if res.Panic != "" {
		out.Checks = append(out.Checks, "C11/call-panicked#conserveany: "+res.Panic)
		return
	}
	if got, w := looseNorm(redactableStrip(res.Out)), looseNorm(want.String()); got != w {
		out.Checks = append(out.Checks, fmt.Sprintf("C11/written-output-lost#conserveany: apart from '?' and marker runes the writes add up to %q but the output holds %q (full output %q)", clip(w), clip(got), clip(res.Out)))
	}
}

// pieceTextAny: like pieceText, but bytes are taken as they are.
func pieceTextAny(st *Step) (string, bool) {
	switch st.A {
	case "sy":
		return string([]byte{byte(st.I)}), true
	case "uy", "wb":
		// a single unsafe byte that cannot stand alone (>= 0x80) is
		// rendered as the escape mark '?', by design
		if byte(st.I) >= 0x80 {
			return "", true
		}
		return string([]byte{byte(st.I)}), true
	}
	return pieceText(st)
}

// ---- exotic operands ---------------------------------------------------------------
//
// Pointers, channels, funcs, arrays, maps with non-string keys, nested
// pointers, unsafe.Pointer: their renderings contain addresses, so they
// are kept out of every comparing oracle - but "no value of any
// parameter type makes a printing call panic" can still be observed.

func init() { opKinds["exotic"] = execExotic }

type exoticStruct struct {
	P  *int
	PP **int
	C  chan int
	F  func()
	M  map[int]string
	A  [3]int8
	S  []*int
	I  interface{}
	U  uintptr
	e  *exoticStruct
}

func execExotic(e *env, op *Op, out *Outcome) {
	x := 42
	px := &x
	var nilp *int
	var nilm map[int]string
	var nilf func()
	var nilc chan int
	es := &exoticStruct{P: px, PP: &px, C: make(chan int), F: func() {}, M: map[int]string{3: "c", 1: "a"}, S: []*int{px, nil}, I: nilp, U: 7}
	es.e = es
	vals := []interface{}{px, &px, nilp, es, *es, es.C, es.F, es.M, es.A, es.S, nilm, nilf, nilc,
		unsafe.Pointer(px), uintptr(9), [2][]int{{1}, nil}, map[interface{}]interface{}{1: "a", "b": 2.5},
		struct{ X, y interface{} }{px, es}, &[]int{1, 2}, []interface{}{nil, px, es.C}, complex64(1 + 2i), [0]int{},
		redact.Safe(px), redact.Unsafe(es), redact.Safe(es.M),
		// maps with keys of mixed and unusual kinds (sorted by fmtsort), deep
		// nesting, empty and nil containers inside structs
		map[interface{}]int{1: 1, "a": 2, 2.5: 3, true: 4, [2]int{1, 2}: 5, struct{ A int }{3}: 6, math.NaN(): 7, math.Inf(-1): 8, nil: 9, int8(1): 10, uint(1): 11},
		map[float64]string{math.NaN(): "x", math.Copysign(0, -1): "y", 0: "z"},
		map[bool]interface{}{true: nil, false: map[string]interface{}{"n": []interface{}{map[int][]string{1: {"d", "e"}}}}},
		[]interface{}{[]interface{}{[]interface{}{[]interface{}{[]interface{}{map[string][]int{"k": nil}}}}}},
		struct {
			M map[string]int
			S []string
			I interface{}
			E error
			F fmt.Stringer
		}{},
		map[[2]bool]struct{}{{true, false}: {}, {false, false}: {}}, map[string]int(nil), []int(nil), [3][]map[int]int{},
		map[struct {
			Tag interface{}
			N   int
		}]string{{nil, 1}: "a", {nil, 2}: "b", {"t", 1}: "c", {3, 1}: "d"},
		map[[2]interface{}]int{{nil, "x"}: 1, {nil, "y"}: 2, {nil, nil}: 3, {1, nil}: 4},
		map[interface{}]interface{}{[1]interface{}{nil}: nil, struct{ E error }{}: 1, struct{ E error }{fmt.Errorf("e")}: 2},
		// every kind fmtsort compares, with ties and with both orders
		map[uint]int{3: 1, 1: 2, 1 << 63: 3}, map[uintptr]bool{2: true, 1: false}, map[uint8]int{2: 1, 200: 2},
		map[complex128]string{1 + 2i: "a", 1 + 1i: "b", 0: "c", complex(math.NaN(), 1): "d", complex(1, math.NaN()): "e"},
		map[complex64]int{2i: 1, 1i: 2}, map[chan int]int{es.C: 1, make(chan int): 2, nil: 3}, map[*int]int{px: 1, new(int): 2, nil: 3},
		map[interface{}]int{int8(1): 1, int16(1): 2, int8(0): 3, int16(0): 4, uint8(1): 5, "": 6, "a": 7},
		map[interface{}]int{es.C: 1, px: 2, nilp: 3, nilc: 4}, map[string]int{"b": 1, "a": 2, "": 3}, map[int32]int{-1: 1, 5: 2, 0: 3},
		map[[2]uint]int{{1, 2}: 1, {1, 1}: 2}, map[struct {
			A uint
			B complex128
		}]int{{1, 2}: 1, {1, 1}: 2, {0, 3}: 3},
		// keys that are equal in their leading components, or not ordered at all
		map[[2]int]int{{1, 2}: 1, {1, 3}: 2}, map[[2]string]int{{"a", "b"}: 1, {"a", "c"}: 2}, map[[2]float64]int{{1, 2}: 1, {1, 3}: 2},
		map[[2]bool]int{{true, false}: 1, {true, true}: 2}, map[[1]float64]int{{math.NaN()}: 1, {math.NaN()}: 2},
		map[struct{ A, B int8 }]int{{1, 1}: 1, {1, 2}: 2}, map[[2]uint16]int{{7, 1}: 1, {7, 0}: 2}, map[[2]complex64]int{{1, 2}: 1, {1, 3}: 2},
		map[[2]*int]int{{px, nil}: 1, {px, px}: 2}, map[[2]chan int]int{{es.C, nil}: 1, {es.C, es.C}: 2},
		map[[2]interface{}]int{{1, 1}: 1, {1, "a"}: 2, {1, nil}: 3}, reflect.Value{}, reflect.ValueOf(redact.Safe(3)), reflect.ValueOf(nilp),
		// values reachable through unexported fields only (printed by
		// reflection; reflect forbids Interface() on them)
		struct {
			ID   int
			user interface{}
		}{1, redact.Safe("bob")},
		struct {
			ID   int
			user interface{}
			more map[string]interface{}
			s    []interface{}
		}{2, redact.Unsafe("bob"), map[string]interface{}{"a": redact.Safe(1), "b": redact.Unsafe(simPlainErr{Msg: "m"})}, []interface{}{redact.Safe(es.M), redact.SafeString("x"), redact.RedactableString("r ‹x›"), simStringer{1}, fmt.Errorf("e")}},
		struct{ sv, uv, rs, rb interface{} }{redact.Safe(simPlainErr{Msg: "m"}), redact.Unsafe(nil), redact.RedactableString("‹y›"), redact.RedactableBytes("‹z›")},
		[5]byte{1, 2, 0xe2, 0x80, 0xb9}, &[3]byte{'a', 'b', 0xff}, [0]byte{}, []byte(nil), int16(-3), uint16(9), uint32(1 << 31)}
	verbs := []string{"%v", "%+v", "%#v", "%d", "%x", "%p", "%s", "%T", "%q", "%08.3v", "%-9d", "%U", "%c", "%t", "%e", "%F", "% x", "%#x", "%X", "%o", "%b"}
	k := op.N
	if k < 0 {
		k = -k
	}
	bad := 0
	for i, v := range vals {
		verb := verbs[(k+i)%len(verbs)]
		func() {
			defer func() {
				if r := recover(); r != nil {
					bad++
					if len(out.Checks) < 3 {
						out.Checks = append(out.Checks, fmt.Sprintf("C11/call-panicked#exotic: printing a %T with %s panicked: %v", v, verb, r))
					}
				}
			}()
			_ = redact.Sprintf("a "+verb+" b", v)
			_ = redact.Sprint(v, v)
			var sb redact.StringBuilder
			sb.Printf(verb, v)
			sb.Print(v)
			_ = sb.RedactableString()
		}()
	}
	if e.t != nil {
		e.stats.Extra["c11_exotic_operands_printed"] += len(vals)
	}
}

// ---- numeric formatting edges ------------------------------------------------------
//
// A systematic walk over flags x width x precision x verb x operand for
// the combinations where the scratch buffer, the padding arithmetic or
// the rune slicing of format.go are at their limits. No call may panic
// and the text around the directive must come out intact.

func init() { opKinds["numsweep"] = execNumSweep }

var (
	nsFlags = []string{"", "0", "+", "-", "#", " ", "+0", "#0", " 0", "+#", "-0", "+ #0"}
	nsWid   = []string{"", "8", "70", "100", "3"}
	nsPrec  = []string{"", ".0", ".3", ".67", ".80", ".200"}
	nsVerbs = []string{"d", "x", "X", "o", "b", "e", "f", "g", "s", "q", "v", "c", "U", "E", "G", "O"}
)

func nsOperands() []interface{} {
	return []interface{}{int64(math.MinInt64), int64(-1), 42, uint64(math.MaxUint64), 1e308, -1e-308, math.NaN(), math.Inf(-1),
		"日本語テキストé", []byte("\x00\xffab\xe2\x80"), int8(-128), complex(1e100, -1e-100), true, 'x', uintptr(math.MaxUint64 >> 1),
		redact.Safe(int64(math.MinInt64)), redact.Unsafe(uint64(math.MaxUint64)), redact.SafeInt(math.MinInt64), redact.SafeFloat(math.MaxFloat64)}
}

func execNumSweep(e *env, op *Op, out *Outcome) {
	ops := nsOperands()
	total := len(nsFlags) * len(nsWid) * len(nsPrec) * len(nsVerbs) * len(ops)
	start := op.N
	if start < 0 {
		start = -start
	}
	const per = 400
	bad := 0
	for k := 0; k < per; k++ {
		i := (start*per + k*7919) % total // a stride coprime with the space: every op covers a different slice
		fl := nsFlags[i%len(nsFlags)]
		i /= len(nsFlags)
		wd := nsWid[i%len(nsWid)]
		i /= len(nsWid)
		pr := nsPrec[i%len(nsPrec)]
		i /= len(nsPrec)
		vb := nsVerbs[i%len(nsVerbs)]
		i /= len(nsVerbs)
		v := ops[i%len(ops)]
		format := "L.%" + fl + wd + pr + vb + ".R"
		func() {
			defer func() {
				if r := recover(); r != nil {
					bad++
					if len(out.Checks) < 3 {
						out.Checks = append(out.Checks, fmt.Sprintf("C11/call-panicked#numsweep: Sprintf(%q, %T(%v)) panicked: %v", format, v, v, r))
					}
				}
			}()
			s := redactableStrip(string(redact.Sprintf(format, v)))
			if !strings.HasPrefix(s, "L.") || !strings.HasSuffix(s, ".R") {
				bad++
				if len(out.Checks) < 3 {
					out.Checks = append(out.Checks, fmt.Sprintf("C11/written-output-lost#numsweep: Sprintf(%q, %T(%v)) = %q: the literal text around the directive is damaged", format, v, v, clip(s)))
				}
			}
		}()
	}
	if e.t != nil {
		e.stats.Extra["c11_numeric_edge_combinations"] += per
	}
}
