package main

// C15 — HelperForErrorf returns the %w operand and the Sprintf text.
//
// Formats are generated structurally (a list of directives), so the
// oracle knows which directive is %w and which operand it consumes
// without parsing anything. The composite op "errorfx" calls
// HelperForErrorf, then Sprintf on the twin format (correctly used %w
// replaced by %v), then - for fmt-compatible operand lists with at most
// one %w - fmt.Errorf, each on its own freshly built operands, yielding
// in between so the calls run on different recycled printers (whose %w
// capture slots may have been left in any state by other tasks).

import (
	"errors"
	"fmt"
	"strconv"
	"strings"

	"github.com/cockroachdb/redact"
)

func init() {
	opKinds["errorfx"] = execErrorfX
}

func (d *Dir) String() string {
	if d.Verb == "" {
		return strings.ReplaceAll(string(d.Lit), "%", "%%")
	}
	s := strings.ReplaceAll(string(d.Lit), "%", "%%") + "%" + d.Flags + d.Wid + d.Prec
	if d.Idx > 0 {
		s += "[" + strconv.Itoa(d.Idx) + "]"
	}
	return s + d.Verb
}

func buildFormat(ds []Dir) string {
	var sb strings.Builder
	for i := range ds {
		sb.WriteString(ds[i].String())
	}
	return sb.String()
}

var errorKinds = map[string]bool{"goerr": true, "error": true, "wraperr": true, "errfmt": true, "errsafefmt": true,
	"errstr": true, "hookerr": true, "nilerror": true, "typednilerr": true, "maperror": true, "ptrerr": true}

func holdsError(v *Val) bool {
	// "possibly wrapped in Safe/Unsafe": one wrapper, as printArg removes
	if (v.K == "safe" || v.K == "unsafe") && len(v.V) == 1 {
		v = &v.V[0]
	}
	return errorKinds[v.K]
}

// wModel replays the documented %w rules over the directive list: which
// %w directives render like %v, and which operand (if any) is returned.
func wModel(ds []Dir, args []Val) (good map[int]bool, retArg int, unclear bool) {
	good = map[int]bool{}
	nW, nMissing := 0, 0
	defer func() {
		// several %w of which some have no operand (MISSING/BADINDEX):
		// the statement does not say whether those count as "a %w"; the
		// returned error is not judged for such formats
		unclear = nW >= 2 && nMissing > 0
	}()
	enabled, captured := true, -1
	for i := range ds {
		d := &ds[i]
		if d.Verb != "w" {
			continue
		}
		nW++
		if d.Arg < 0 || d.Arg >= len(args) {
			// missing operand or bad index: reported as such, %w is not
			// even looked at; capture state unchanged
			nMissing++
			continue
		}
		if enabled && captured < 0 && holdsError(&args[d.Arg]) {
			good[i] = true
			captured = d.Arg
		} else {
			enabled = false
			captured = -2 // dropped
		}
	}
	retArg = -1
	if nW >= 1 && captured >= 0 {
		retArg = captured
	}
	return good, retArg, false
}

func execErrorfX(e *env, op *Op, out *Outcome) {
	fail := func(inv, detail string) {
		out.Checks = append(out.Checks, "C15/"+inv+": "+detail)
	}
	format := buildFormat(op.D)
	args := e.buildAll(op.A)
	s, err := redact.HelperForErrorf(format, args...)
	out.Out = string(s)
	out.ErrArg = identifyErr(err, args)
	if e.t != nil {
		e.stats.Extra["errorf_checked"]++
	}
	good, retArg, unclear := wModel(op.D, op.A)
	nW := 0
	for i := range op.D {
		if op.D[i].Verb == "w" {
			nW++
		}
	}
	if e.t != nil {
		e.stats.Extra[fmt.Sprintf("errorf_with_%d_w", min(nW, 3))]++
	}
	// ---- oracle 1: the returned error --------------------------------------
	want := 0
	if retArg >= 0 {
		want = retArg + 1
	}
	// (two operands may be indistinguishable, e.g. two typed-nil errors:
	// identity is judged against the wanted operand first)
	okErr := out.ErrArg == want || (want > 0 && same(args[want-1], err))
	if !okErr && !unclear {
		fail("wrong-error-returned", fmt.Sprintf("format %q: returned error is operand #%d (0 = nil, -1 = not an operand), want operand #%d", format, out.ErrArg, want))
	}
	e.yield(ySession)
	// ---- oracle 2: the text is Sprintf's, correctly used %w rendering like %v ----
	twin := make([]Dir, len(op.D))
	copy(twin, op.D)
	for i := range twin {
		if good[i] {
			twin[i].Verb = "v"
		}
	}
	tf := buildFormat(twin)
	ts := string(redact.Sprintf(tf, e.buildAll(op.A)...))
	if ts != out.Out {
		fail("text-differs-from-sprintf-twin", fmt.Sprintf("HelperForErrorf(%q) = %q but Sprintf(%q) = %q", format, clip(out.Out), tf, clip(ts)))
	}
	e.yield(ySession)
	// ---- oracle 3: fmt.Errorf as reference model ----------------------------------
	if op.N == 1 && nW <= 1 && !e.plan.Cfg.Hook {
		fargs := e.buildAll(op.A)
		e.shadow++
		fe := fmt.Errorf(format, fargs...)
		msg := fe.Error()
		e.shadow--
		if got := redactableStrip(out.Out); got != msg {
			fail("text-differs-from-fmt.Errorf", fmt.Sprintf("format %q: stripped text %q, fmt.Errorf message %q", format, clip(got), clip(msg)))
		}
		fw := errors.Unwrap(fe)
		if fu := identifyErr(fw, fargs); fu != out.ErrArg && !(out.ErrArg > 0 && same(fargs[out.ErrArg-1], fw)) {
			fail("error-differs-from-fmt.Errorf-unwrap", fmt.Sprintf("format %q: returned operand #%d, errors.Unwrap(fmt.Errorf(...)) is operand #%d", format, out.ErrArg, fu))
		}
		if e.t != nil {
			e.stats.Extra["errorf_compared_with_fmt"]++
		}
	}
}

func min(a, b int) int {
	if a < b {
		return a
	}
	return b
}

var c15Verbs = []string{"v", "v", "s", "d", "q", "x", "v", "s"}

// opC15 generates one errorfx op.
func (g *gen) opC15() Op {
	saveP, saveB := g.panicRate, g.bigRate
	g.bigRate = 0
	defer func() { g.panicRate, g.bigRate = saveP, saveB }()
	g.nextID = 0
	fmtCompat := g.chance(0.5)
	if fmtCompat {
		g.panicRate = 0
	}
	clean := func(s string) string {
		s = strings.ToValidUTF8(s, "?")
		s = strings.ReplaceAll(s, mStart, "<")
		s = strings.ReplaceAll(s, mEnd, ">")
		return s
	}
	errVal := func() Val {
		if fmtCompat {
			switch g.r.Intn(4) {
			case 0:
				return Val{K: "goerr", ID: g.id(), S: Str(clean(g.payload()))}
			case 1:
				v := g.scripted("error", 1)
				v.R = Str(clean(string(v.R)))
				return v
			case 2:
				v := g.scripted("wraperr", 1)
				v.R = Str(clean(string(v.R)))
				return v
			default:
				return Val{K: "typednilerr"}
			}
		}
		switch g.r.Intn(11) {
		case 0:
			return Val{K: "goerr", ID: g.id(), S: Str(g.payload())}
		case 1:
			return g.scripted("error", 1)
		case 2:
			return g.scripted("errfmt", 1)
		case 3:
			v := g.scripted("errsafefmt", 1)
			if g.chance(0.6) {
				// its SafeFormat prints through a nested Printf whose own
				// format uses %w: the nested printer has its own capture
				// state (always off), the outer one must not be affected
				nf := g.pick([]string{"in(%w)", "%v/%w", "%w", "%[1]w|%[1]v", "%w %w"})
				na := []Val{{K: "goerr", ID: g.id(), S: Str("inner " + g.payload())}, {K: "goerr", ID: g.id(), S: "inner2"}}
				at := g.r.Intn(len(v.P) + 1)
				v.P = append(v.P[:at:at], append([]Step{{A: "pf", S: Str(nf), V: na}}, v.P[at:]...)...)
			}
			return v
		case 4:
			return g.scripted("errstr", 1)
		case 5:
			return Val{K: "safe", V: []Val{{K: "goerr", ID: g.id(), S: Str(g.payload())}}}
		case 6:
			return Val{K: "unsafe", V: []Val{g.scripted("error", 1)}}
		case 7:
			return Val{K: "nilerror", ID: g.id()}
		case 8:
			// an error of an uncomparable (map) type
			return g.scripted("maperror", 1)
		case 9:
			// a pointer-typed error: identity is the pointer
			return Val{K: "ptrerr", ID: g.id(), S: Str(g.payload())}
		default:
			return g.scripted("hookerr", 1)
		}
	}
	plainVal := func() Val {
		if fmtCompat {
			switch g.r.Intn(5) {
			case 0:
				return Val{K: "int", I: int64(g.r.Intn(1000) - 100)}
			case 1:
				return Val{K: "str", S: Str(clean(g.payload()))}
			case 2:
				return Val{K: "nil"}
			case 3:
				return Val{K: "f64", I: int64(g.r.Intn(100))}
			default:
				v := g.scripted("stringer", 1)
				v.R = Str(clean(string(v.R)))
				return v
			}
		}
		v := g.val(1, true)
		for v.K == "rv" {
			// a reflect.Value holding an error under %w: fmt.Errorf wraps the
			// held error, and so does redact; whether that operand "holds an
			// error" in the statement's sense is unclear - not generated here
			v = g.val(1, true)
		}
		return v
	}
	nArgs := g.r.Intn(4)
	var args []Val
	for i := 0; i < nArgs; i++ {
		if g.chance(0.45) {
			args = append(args, errVal())
		} else {
			args = append(args, plainVal())
		}
	}
	// directives
	nDir := 1 + g.r.Intn(4)
	nW := []int{0, 1, 1, 1, 1, 2, 2, 3}[g.r.Intn(8)]
	var ds []Dir
	argNum := 0
	reordered := false
	wLeft := nW
	for i := 0; i < nDir; i++ {
		d := Dir{Lit: Str(g.lit())}
		if fmtCompat {
			d.Lit = Str(clean(string(d.Lit)))
		}
		isW := wLeft > 0 && (g.chance(0.5) || nDir-i <= wLeft)
		if isW {
			d.Verb = "w"
			wLeft--
		} else {
			d.Verb = g.pick(c15Verbs)
		}
		if g.chance(0.25) {
			d.Flags = g.pick([]string{"+", "-", "#", " ", "0"})
			if isW && (d.Flags == "+" || d.Flags == "#") {
				// %+w / %#w: fmt.Errorf itself does not render these like
				// %+v / %#v (the verb is rewritten after the flags were
				// interpreted), so the property's two clauses conflict
				// there; not generated
				d.Flags = "-"
			}
		}
		if g.chance(0.25) {
			d.Wid = strconv.Itoa(1 + g.r.Intn(12))
		}
		starred := false
		if g.chance(0.12) && argNum < len(args) {
			// a '*' width: consumes an int operand before the verb's own
			d.Wid = "*"
			if g.chance(0.7) {
				args[argNum] = Val{K: "int", I: int64(g.r.Intn(9))}
			} // else: whatever is there - unusable as a width, reported as BADWIDTH, but still consumed
			argNum++
			starred = true
		}
		if g.chance(0.15) {
			d.Prec = "." + strconv.Itoa(g.r.Intn(5))
		}
		if g.chance(0.2) && !starred {
			d.Idx = 1 + g.r.Intn(nArgs+1) // may be one past the end: BADINDEX
		}
		// the generator's knowledge of which operand is consumed
		d.Arg = -1
		if d.Idx > 0 {
			reordered = true
			if d.Idx <= len(args) {
				argNum = d.Idx - 1
				d.Arg = argNum
				argNum++
			}
			// bad index: nothing consumed, argNum unchanged
		} else if argNum < len(args) {
			d.Arg = argNum
			argNum++
		}
		ds = append(ds, d)
	}
	_ = reordered
	if g.chance(0.5) {
		l := g.lit()
		if fmtCompat {
			l = clean(l)
		}
		ds = append(ds, Dir{Lit: Str(l)})
	}
	op := Op{K: "errorfx", D: ds, A: args}
	if fmtCompat {
		op.N = 1
	}
	return op
}
