//go:build verifyield

package main

import (
	"runtime"

	hooks "github.com/cockroachdb/redact/verifhooks"
)

// With the build overlay of cmd/instrument every statement of the
// library that uses sync or sync/atomic is preceded by a call to this
// hook: a yield point of the simulation, so that state shared through
// atomics or locks - invisible to the race monitor - is interleaved.
func init() {
	// never switch tasks while the running task holds a real lock
	hooks.SetLockDepthHook(func(d int) {
		if freeMode {
			return
		}
		if e := curEnv(); e != nil {
			e.lockDepth += d
		}
	})
	hooks.SetSyncYieldHook(func() {
		if freeMode {
			runtime.Gosched()
			return
		}
		e := curEnv()
		if e != nil && e.t != nil {
			e.stats.Extra["library_sync_yields"]++
			e.yield(yLibSync)
		}
	})
}
