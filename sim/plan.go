package main

// Plan: the complete, JSON-serialisable description of one simulated
// run. Execute(plan) is a pure function of the plan and of the code
// under test; nothing is drawn from a PRNG while the system runs. The
// replay file of a violation IS a plan (plus the violation record).

import (
	"encoding/hex"
	"encoding/json"
	"os"
	"strings"
	"unicode/utf8"
)

type Plan struct {
	Prop  string `json:"prop"`
	Seed  int64  `json:"seed"`
	Tier  string `json:"tier,omitempty"`
	Cfg   Config `json:"cfg"`
	Tasks []Task `json:"tasks"`
	// Shared lists values that are built once per run and that operands
	// of kind "shared" refer to by index: the same read-only value printed
	// by several tasks (shared.go).
	Shared []Val `json:"shared,omitempty"`
	// Prefix lists the seeds of earlier runs (same property and tier) that
	// must be executed in the same process before this plan for the
	// violation to show: the code under test then keeps state across
	// calls somewhere other than in the pooled printers (a package-level
	// memo, say), which is itself what C12 forbids. Empty for violations
	// that reproduce from the plan alone.
	Prefix []int64 `json:"prefix,omitempty"`
	// Violation is filled in when the plan is written as a replay file.
	Violation *Violation `json:"violation,omitempty"`
}

// Config is the swarm configuration of a run (fixed before tasks start).
type Config struct {
	Hook     bool `json:"hook,omitempty"`     // error-redaction hook installed
	NoPoison bool `json:"nopoison,omitempty"` // do not scribble over idle printers' spare capacity
	Sink     bool `json:"sink,omitempty"`     // a sink task re-reads handed-over snapshots
	// CarryPool: the run starts with the idle printers the previous run of
	// this process left in the pool (as a long-lived process would), instead
	// of an empty pool. A failure that depends on them replays with a
	// prefix of earlier runs.
	CarryPool bool `json:"carrypool,omitempty"`
	// LateReg > 0: after the reference execution and right before the tasks
	// start, the main goroutine registers a struct type that is new to the
	// process as safe (RegisterSafeType has returned before any task exists).
	LateReg   int `json:"latereg,omitempty"`
	SinkSteps int `json:"sinksteps,omitempty"`
}

type Task struct {
	Ops  []Op  `json:"ops"`
	Tape []int `json:"tape,omitempty"` // scheduler and pool decisions taken at this task's events
}

// Op is one public API call (or one builder session, or one composite
// differential check) issued by a task.
type Op struct {
	K string `json:"k"`           // kind
	F Str    `json:"f,omitempty"` // format string
	A []Val  `json:"a,omitempty"` // operands
	W *WSpec `json:"w,omitempty"` // writer behaviour (fprint/fprintf)
	S []Step `json:"s,omitempty"` // script (sprintfn body, builder session)
	D []Dir  `json:"d,omitempty"` // structured format (errorf)
	// C11: which scripted value (by ID) carries the injected panic, the
	// method it is raised in, the verb it is printed under, and the
	// override context it is printed in.
	PT *PanicTarget `json:"pt,omitempty"`
	// Dst is the prior content of the destination for builder/nested routes (C16).
	Dst []Step `json:"dst,omitempty"`
	// In is the inner op of a composite op.
	In *Op `json:"in,omitempty"`
	// N is a small integer parameter (kind specific).
	N int `json:"n,omitempty"`
}

type PanicTarget struct {
	ID      int    `json:"id"`
	Method  string `json:"method"`
	K       int    `json:"k"`    // panic raised before step K of the script
	Verb    string `json:"verb"` // verb the target is printed under
	Dirv    string `json:"dirv"` // full directive (for fmt twin), e.g. "%+10v"
	Ctx     string `json:"ctx"`  // plain | safe | unsafe
	Depth   int    `json:"depth,omitempty"`
	Payload []Val  `json:"payload,omitempty"`
	NilRcv  bool   `json:"nilrcv,omitempty"`
	Nested  bool   `json:"nested,omitempty"` // payload's own printing panics: propagates
	// NestedContained: the payload's own printing panics, but the call
	// sits inside an enclosing user method, whose printer contains the
	// propagating panic (as in fmt): the call must not panic; the text
	// is not judged
	NestedContained bool `json:"nestedcontained,omitempty"`
}

// Val is an operand descriptor. Operands are rebuilt from descriptors
// at every execution, so the reference execution and the simulated
// execution get structurally identical, unshared operands.
type Val struct {
	K  string `json:"k"`
	ID int    `json:"id,omitempty"` // static identity of scripted values within an op
	S  Str    `json:"s,omitempty"`
	I  int64  `json:"i,omitempty"`
	V  []Val  `json:"v,omitempty"` // children (wrapper payload, elements, fields, wrapped error)
	P  []Step `json:"p,omitempty"` // program of the value's primary user method
	R  Str    `json:"r,omitempty"` // return value of string-returning methods
}

// Step is one step of a scripted user method, of a Sprintfn body, or
// of a builder session.
type Step struct {
	A string `json:"a"`
	S Str    `json:"s,omitempty"`
	I int64  `json:"i,omitempty"`
	V []Val  `json:"v,omitempty"`
	O *Op    `json:"o,omitempty"`
}

// Dir is one directive of a structured format string.
type Dir struct {
	Lit   Str    `json:"lit,omitempty"`   // literal text (no '%')
	Verb  string `json:"verb,omitempty"`  // verb rune as string; "" for a literal
	Flags string `json:"flags,omitempty"` // subset of "+-# 0"
	Wid   string `json:"wid,omitempty"`   // "", "7", "*"
	Prec  string `json:"prec,omitempty"`  // "", ".3", ".*"
	Idx   int    `json:"idx,omitempty"`   // explicit argument index (1-based), 0 = none
	Arg   int    `json:"arg"`             // generator's knowledge: operand position consumed (-1 none/missing)
}

// WSpec describes a simulated io.Writer.
type WSpec struct {
	Kind string `json:"kind"`         // ok | err0 | errk | short | short0 | panic | block | reenter | okerr
	K    int    `json:"k,omitempty"`  // split point for errk/short (clamped to len)
	Op   *Op    `json:"op,omitempty"` // for reenter
}

// Violation describes an invariant failure.
type Violation struct {
	Prop      string `json:"prop"`
	Invariant string `json:"invariant"`
	// Class tells apart different failures of the same invariant (the op
	// kind and the shape of the failure), so that minimisation does not
	// drift from one defect to another and a known finding does not
	// hide a different one.
	Class    string `json:"class,omitempty"`
	Task     int    `json:"task"`
	OpIdx    int    `json:"op"`
	Detail   string `json:"detail"`
	Expected string `json:"expected,omitempty"`
	Actual   string `json:"actual,omitempty"`
}

func (v *Violation) key() string { return v.Prop + "/" + v.Invariant + "/" + v.Class }

func loadPlan(path string) (*Plan, error) {
	b, err := os.ReadFile(path)
	if err != nil {
		return nil, err
	}
	var p Plan
	if err := json.Unmarshal(b, &p); err != nil {
		return nil, err
	}
	return &p, nil
}

func (p *Plan) save(path string) error {
	b, err := json.MarshalIndent(p, "", " ")
	if err != nil {
		return err
	}
	return os.WriteFile(path, b, 0o644)
}

func (p *Plan) clone() *Plan {
	b, err := json.Marshal(p)
	if err != nil {
		panic(err)
	}
	var q Plan
	if err := json.Unmarshal(b, &q); err != nil {
		panic(err)
	}
	return &q
}

func (p *Plan) opCount() int {
	n := 0
	for _, t := range p.Tasks {
		n += len(t.Ops)
	}
	return n
}

// Str is a byte string that survives a JSON round trip even when it is
// not valid UTF-8 (encoding/json would replace invalid bytes by U+FFFD,
// and a replay file must reproduce payloads byte for byte).
type Str string

const strHexPrefix = "\x00hex:"

func (s Str) MarshalJSON() ([]byte, error) {
	if utf8.ValidString(string(s)) && !strings.HasPrefix(string(s), strHexPrefix) {
		return json.Marshal(string(s))
	}
	return json.Marshal(strHexPrefix + hex.EncodeToString([]byte(s)))
}

func (s *Str) UnmarshalJSON(b []byte) error {
	var x string
	if err := json.Unmarshal(b, &x); err != nil {
		return err
	}
	if strings.HasPrefix(x, strHexPrefix) {
		d, err := hex.DecodeString(x[len(strHexPrefix):])
		if err != nil {
			return err
		}
		x = string(d)
	}
	*s = Str(x)
	return nil
}
