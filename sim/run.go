package main

// execute: one simulated run = reference execution of every op in
// isolation, then the same ops under the scheduler.

import (
	"fmt"
	"os"
	"reflect"
	"strings"
	"sync"
	"time"

	"github.com/cockroachdb/redact"
	hooks "github.com/cockroachdb/redact/verifhooks"
)

type printerState = hooks.PrinterState
type hooksPrinter = hooks.Printer

type RunResult struct {
	Viol      []Violation
	Stats     *Stats
	Pool      poolStats
	Events    int
	Switches  int
	Yields    [nYieldKinds]int
	Trace     uint64
	Log       string
	Digest    string // digest of every op outcome, in task order
	RefGets   int
	Tasks     int
	SinkReads int
}

type execOpts struct {
	log     bool
	refOnly bool
}

var hooksInstalled bool

// carryPool: idle printers left by the previous run of this process.
var carryPool []*prec

func installHooks() {
	if !hooksInstalled {
		hooks.SetPoolHooks(poolGetHook, poolPutHook)
		hooksInstalled = true
	}
}

// reference executes every op of the plan alone: main goroutine, fresh
// printer for every newPrinter(), printers dropped when freed, yields
// are no-ops. Faults that belong to an op are in force, because they
// are part of the op.
func reference(plan *Plan) (exp [][]Outcome, e *env) {
	setCurrent(nil)
	e = newEnv(plan, nil)
	refEnv = e
	exp = make([][]Outcome, len(plan.Tasks))
	for ti := range plan.Tasks {
		ops := plan.Tasks[ti].Ops
		exp[ti] = make([]Outcome, len(ops))
		for i := range ops {
			e.opIdx = i
			for k := range e.defs {
				delete(e.defs, k)
			}
			e.owned = e.owned[:0]
			exp[ti][i] = e.execOp(&ops[i])
		}
	}
	return exp, e
}

func execute(plan *Plan, opts execOpts) *RunResult {
	installHooks()
	if plan.Cfg.Hook {
		redact.RegisterRedactErrorFn(errorHook)
	} else {
		redact.RegisterRedactErrorFn(nil)
	}
	defer redact.RegisterRedactErrorFn(nil)

	res := &RunResult{Stats: newStats(), Tasks: len(plan.Tasks)}
	buildShared(plan)
	exp, re := reference(plan)
	res.RefGets = re.refGets
	res.Viol = append(res.Viol, checkShared("reference (isolated) execution")...)
	// in-op oracle failures seen by the reference execution
	for ti := range exp {
		for i := range exp[ti] {
			for _, c := range exp[ti][i].Checks {
				res.Viol = append(res.Viol, checkViolation(plan.Prop, c, ti, i, "reference (isolated) execution"))
			}
		}
	}
	if opts.refOnly {
		var sb strings.Builder
		for ti := range exp {
			for i := range exp[ti] {
				fmt.Fprintf(&sb, "t%d.%d %s\n", ti, i, exp[ti][i].digest())
			}
		}
		res.Digest = sb.String()
		return res
	}

	s := &sim{plan: plan, sp: newPipe(), byPtr: map[*hooks.Printer]*prec{}}
	if opts.log {
		s.log = &strings.Builder{}
	}
	var sinkCh chan handoff
	if plan.Cfg.Sink {
		sinkCh = make(chan handoff, 1<<14)
	}
	if plan.Cfg.CarryPool {
		for _, r := range carryPool {
			r.lastPutBy = -1
			s.idle = append(s.idle, r)
			s.byPtr[r.p] = r
			if r.id >= s.nextID {
				s.nextID = r.id + 1
			}
		}
	}
	carryPool = nil
	nt := len(plan.Tasks)
	total := nt
	if plan.Cfg.Sink {
		total++
	}
	s.outBy = make([]int, total)
	for ti := 0; ti < total; ti++ {
		t := &task{id: ti, pipe: newPipe(), sim: s}
		t.env = newEnv(plan, t)
		t.env.sinkCh = sinkCh
		if ti < nt {
			t.tape = plan.Tasks[ti].Tape
			t.env.expected = exp[ti]
		} else {
			t.isSink = true
		}
		s.tasks = append(s.tasks, t)
	}
	if plan.Cfg.LateReg > 0 {
		lateRegCounter++
		redact.RegisterSafeType(reflect.TypeOf(lateRegValue()))
	}
	var wg sync.WaitGroup
	for _, t := range s.tasks {
		wg.Add(1)
		t := t
		go func() {
			defer wg.Done()
			if t.isSink {
				t.sinkMain(plan.Cfg.SinkSteps)
			} else {
				t.main(plan.Tasks[t.id].Ops)
			}
		}()
	}
	stop := startWatchdog(s, plan)
	s.run()
	stop()
	wg.Wait()
	setCurrent(nil)
	s.sp.close()
	for _, t := range s.tasks {
		t.pipe.close()
	}

	// what stays idle in the pool is what the next run of this process may start with
	for _, r := range s.idle {
		if r.state == 1 && len(carryPool) < 16 {
			carryPool = append(carryPool, r)
		}
	}
	res.Viol = append(res.Viol, s.viol...)
	res.Viol = append(res.Viol, checkShared("simulated run")...)
	if len(plan.Shared) > 0 {
		res.Stats.Extra["runs_with_shared_operands"]++
		res.Stats.Extra["shared_operand_fingerprint_checks"] += 2 * len(plan.Shared)
	}
	var sb strings.Builder
	for _, t := range s.tasks {
		res.Viol = append(res.Viol, t.env.viol...)
		res.Stats.add(t.env.stats)
		for i := range t.env.results {
			fmt.Fprintf(&sb, "t%d.%d %s\n", t.id, i, t.env.results[i].digest())
		}
		if t.isSink {
			res.SinkReads = t.env.stats.Extra["sink_rereads"]
		}
	}
	res.Digest = sb.String()
	res.Pool = s.pool
	res.Pool.PoisonedBytes = res.Stats.PoisonedBytes
	res.Events = s.events
	res.Switches = s.switches
	res.Yields = s.yields
	res.Trace = s.trace
	if s.log != nil {
		res.Log = s.log.String()
	}
	return res
}

func checkViolation(prop, c string, ti, i int, where string) Violation {
	inv, detail := c, ""
	if k := strings.Index(c, ": "); k >= 0 {
		inv, detail = c[:k], c[k+2:]
	}
	p := prop
	if k := strings.Index(inv, "/"); k >= 0 {
		p, inv = inv[:k], inv[k+1:]
	}
	class := ""
	if k := strings.Index(inv, "#"); k >= 0 {
		inv, class = inv[:k], inv[k+1:]
	}
	return Violation{Prop: p, Invariant: inv, Class: class, Task: ti, OpIdx: i, Detail: detail + " [" + where + "]"}
}

// main is the body of an ordinary task.
func (t *task) main(ops []Op) {
	t.pipe.wait()
	e := t.env
	for i := range ops {
		e.runOpSim(i, &ops[i])
		t.yield(yBetweenOps)
	}
	t.call(reqDone, 0, nil)
	// final phase
	e.recheck(0, e.immutabilityProp())
	t.last(reqFinal)
}

// sinkMain is the body of the sink task: it receives values other tasks
// hand over through a real channel (the synchronisation a real log sink
// would have) and re-reads them later, while their producers keep going.
func (t *task) sinkMain(steps int) {
	t.pipe.wait()
	e := t.env
	var got []handoff
	drain := func() {
		for {
			select {
			case h := <-e.sinkCh:
				got = append(got, h)
			default:
				return
			}
		}
	}
	reread := func() {
		for i := range got {
			h := &got[i]
			var now uint64
			if h.b != nil {
				now = hashBytes(h.b)
			} else {
				now = hashString(h.s)
			}
			e.stats.Extra["sink_rereads"]++
			if now != h.h {
				e.opIdx = h.op
				cur := h.s
				if h.b != nil {
					cur = string(h.b)
				}
				e.viol = append(e.viol, Violation{Prop: t.sim.plan.Prop, Invariant: "handed-over-value-modified", Task: h.from, OpIdx: h.op,
					Detail: fmt.Sprintf("%s handed to the sink by task %d changed afterwards", h.what, h.from), Actual: clip(cur)})
				h.h = now
			}
		}
	}
	for i := 0; i < steps; i++ {
		drain()
		reread()
		t.yield(ySink)
	}
	t.call(reqDone, 0, nil)
	drain()
	reread()
	e.stats.Extra["sink_received"] += len(got)
	t.last(reqFinal)
}

// watchdog: a task that never gives the baton back is harness trouble
// (or an endless loop in the library); either way it is not a verdict.
func startWatchdog(s *sim, plan *Plan) (stop func()) {
	done := make(chan struct{})
	go func() {
		last := readProgress(s)
		idle := 0
		tk := time.NewTicker(2 * time.Second)
		defer tk.Stop()
		for {
			select {
			case <-done:
				return
			case <-tk.C:
				now := readProgress(s)
				if now == last {
					idle++
				} else {
					idle = 0
					last = now
				}
				if idle >= 90 {
					fmt.Fprintf(os.Stderr, "HARNESS-TROUBLE: watchdog: no scheduler progress for 180s (prop=%s seed=%d)\n", plan.Prop, plan.Seed)
					os.Exit(2)
				}
			}
		}
	}()
	return func() { close(done) }
}

//go:norace
func readProgress(s *sim) uint64 { return s.progress }
