package main

import (
	"flag"
	"fmt"
	"os"
)

func usage() {
	fmt.Fprintln(os.Stderr, `usage:
  sim run    -prop C12 -seed S -n N [-tier quick|thorough] [-log]   execute N seeded runs in this process
  sim replay <file>                                                 re-execute a replay file
  sim gen    -prop C12 -seed S                                      print the plan for a seed
  sim drive  ...                                                    (used by /verif/check)`)
	os.Exit(2)
}

func main() {
	if len(os.Args) < 2 {
		usage()
	}
	switch os.Args[1] {
	case "run":
		cmdRun(os.Args[2:])
	case "replay":
		cmdReplay(os.Args[2:])
	case "gen":
		fs := flag.NewFlagSet("gen", flag.ExitOnError)
		prop := fs.String("prop", "C12", "")
		seed := fs.Int64("seed", 1, "")
		tier := fs.String("tier", "quick", "")
		fs.Parse(os.Args[2:])
		p := generate(*prop, *seed, *tier)
		p.save("/dev/stdout")
	case "free":
		cmdFree(os.Args[2:])
	case "drive":
		cmdDrive(os.Args[2:])
	case "determinism":
		cmdDeterminism(os.Args[2:])
	default:
		usage()
	}
}

func init() {
	if p := os.Getenv("VERIF_CPUPROFILE"); p != "" {
		startProfile(p)
	}
}
