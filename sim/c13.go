package main

// C13 — buffer accessors are pure; Reset/Take give a pristine buffer;
// strings obtained earlier never change.
//
// The composite op "bsession" is a session on one StringBuilder or
// ManualBuffer with accessor calls and restarts inserted by the
// generator (at EVERY position of short sessions). At each accessor or
// restart the op rebuilds, on a fresh object, the write calls issued
// since the last restart, and compares: RedactableString snapshots and
// Take results must equal the fresh object's content, Len must equal
// its length, and the final content must equal the fresh replay of the
// last segment - i.e. neither the accessors nor anything before the
// last restart left a trace. Every string obtained is kept, re-hashed
// after later calls, and handed over a real channel to a sink goroutine
// that re-reads it while the producer keeps writing (under the race
// build an aliased snapshot is a reported race on the first later
// write, whatever the bytes are).

import (
	"fmt"
)

func init() {
	opKinds["bsession"] = execBSession
}

var accessorSteps = map[string]bool{"len": true, "cap": true, "str": true, "rstr": true, "rbytes": true, "mode": true}
var restartSteps = map[string]bool{"reset": true, "takes": true, "takeb": true}

func (e *env) newSession(manual bool, out *Outcome) *session {
	if manual {
		return e.newManualSession(out)
	}
	return e.newBuilderSession(out)
}

// freshReplay replays the write steps (no accessors, no yields, no
// poison) on a fresh object and returns its content.
func (e *env) freshReplay(manual bool, steps []Step) string {
	out, _ := e.freshReplayMode(manual, steps)
	return out
}

func (s *session) getMode() int {
	if s.sb != nil {
		return int(s.sb.GetMode())
	}
	return int(s.mb.GetMode())
}

// freshReplayMode also returns the output mode the fresh object ends in.
func (e *env) freshReplayMode(manual bool, steps []Step) (string, int) {
	var sink Outcome
	s := e.newSession(manual, &sink)
	for i := range steps {
		st := &steps[i]
		if accessorSteps[st.A] || restartSteps[st.A] || st.A == "y" || st.A == "poison" {
			continue
		}
		s.step(st)
	}
	return string(s.b.RedactableString()), s.getMode()
}

func execBSession(e *env, op *Op, out *Outcome) {
	manual := op.N == 1
	kind := "StringBuilder"
	if manual {
		kind = "ManualBuffer"
	}
	fail := func(inv, what, detail string) {
		out.Checks = append(out.Checks, "C13/"+inv+"#"+kind+"/"+what+": "+detail)
	}
	s := e.newSession(manual, out)
	s.quiet = true
	segStart := 0
	for i := range op.S {
		st := &op.S[i]
		switch {
		case accessorSteps[st.A]:
			if e.t != nil {
				e.stats.Extra["accessor_calls"]++
			}
			switch st.A {
			case "rstr":
				s.step(st)
				got := s.snaps[len(s.snaps)-1]
				if want := e.freshReplay(manual, op.S[segStart:i]); got != want {
					fail("snapshot-differs-from-fresh-replay", "RedactableString", fmt.Sprintf("at step %d: RedactableString() = %q, the same calls on a new object give %q", i, clip(got), clip(want)))
				}
			case "len":
				s.note("Len")
				n := s.b.Len()
				now := string(s.b.RedactableString())
				if n != len(now) {
					fail("len-differs-from-redactablestring", "Len", fmt.Sprintf("at step %d: Len() = %d but len(RedactableString()) = %d", i, n, len(now)))
				}
				if want := e.freshReplay(manual, op.S[segStart:i]); now != want {
					fail("snapshot-differs-from-fresh-replay", "Len", fmt.Sprintf("at step %d: after Len(), RedactableString() = %q, a new object gives %q", i, clip(now), clip(want)))
				}
			case "mode":
				s.note("GetMode")
				got := s.getMode()
				if _, want := e.freshReplayMode(manual, op.S[segStart:i]); got != want {
					fail("mode-differs-from-fresh-replay", "GetMode", fmt.Sprintf("at step %d: GetMode() = %d, the same calls on a new object leave it in mode %d", i, got, want))
				}
			default:
				s.step(st)
			}
		case restartSteps[st.A]:
			nx := len(out.Extra)
			s.step(st)
			if st.A != "reset" && len(out.Extra) > nx {
				got := out.Extra[len(out.Extra)-1]
				got = got[len(st.A)+1:]
				if want := e.freshReplay(manual, op.S[segStart:i]); got != want {
					fail("take-differs-from-fresh-replay", st.A, fmt.Sprintf("at step %d: Take returned %q, the same calls on a new object give %q", i, clip(got), clip(want)))
				}
			}
			segStart = i + 1
		default:
			s.step(st)
		}
	}
	final := string(s.b.RedactableString())
	out.Out = final
	if want := e.freshReplay(manual, op.S[segStart:]); final != want {
		what := "accessors"
		if segStart > 0 {
			what = "restart"
		}
		fail("final-differs-from-fresh-replay", what, fmt.Sprintf("final content %q; the write calls since the last restart (step %d), on a new object and without accessor calls, give %q", clip(final), segStart, clip(want)))
	}
}

// ---- generation ---------------------------------------------------------

func (g *gen) builderWriteStep() Step {
	switch g.r.Intn(10) {
	case 0:
		return Step{A: "wr", S: Str(g.payload())}
	case 1:
		return Step{A: "wS", S: Str(g.payload())}
	case 2:
		return Step{A: "wb", I: int64(g.r.Intn(256))}
	case 3:
		return Step{A: "wR", I: int64([]int{65, 0x203a, 0x2039, 0xe9, 0x65e5, 10, 0xd800, -1}[g.r.Intn(8)])}
	case 4:
		return Step{A: "grow", I: int64([]int{0, 1, 2, 3, 5, 8, 64, 100, 1000, 5000}[g.r.Intn(10)])}
	default:
		return g.safeScriptNoCtl(1)[0]
	}
}

func (g *gen) manualWriteStep() Step {
	switch g.r.Intn(10) {
	case 0, 1, 2:
		m := int64(g.r.Intn(3))
		s := g.payload()
		if m == 2 {
			s = g.redactableLit()
			if g.chance(0.15) {
				// raw content the caller got wrong: lone or unbalanced markers
				s = g.pick([]string{"›", "‹", "›‹", "x›", "‹x", "››"})
			}
		}
		if g.chance(0.08) {
			// a write of nothing still switches the mode and, in unsafe
			// mode, opens an envelope
			s = ""
		}
		return Step{A: "mw", I: m, S: Str(s)}
	case 3:
		return Step{A: "mwb", I: int64(g.r.Intn(256))*2 + int64(g.r.Intn(2))}
	case 4:
		return Step{A: "mwr", I: int64([]int{65, 0x203a, 0x2039, 0xe9, 0x65e5, 10, 0xdfff}[g.r.Intn(7)])*2 + int64(g.r.Intn(2))}
	case 5:
		return Step{A: "grow", I: int64([]int{0, 1, 2, 3, 5, 8, 64, 100, 1000, 5000}[g.r.Intn(10)])}
	case 6:
		return Step{A: "setmode", I: int64(g.r.Intn(3))}
	default:
		// raw writes in whatever mode the buffer is in (after a restart:
		// the mode of a new buffer)
		switch g.r.Intn(4) {
		case 0:
			return Step{A: "wr", S: Str(g.payload())}
		case 1:
			return Step{A: "wS", S: Str(g.payload())}
		case 2:
			return Step{A: "wb", I: int64(g.r.Intn(256))}
		default:
			return Step{A: "wR", I: int64([]int{65, 0x203a, 0xe9, 10}[g.r.Intn(4)])}
		}
	}
}

var accessorList = []string{"len", "cap", "str", "rstr", "rbytes", "mode"}
var restartList = []string{"reset", "takes", "takeb"}

func insertStep(base []Step, at int, st ...Step) []Step {
	r := append([]Step{}, base[:at]...)
	r = append(r, st...)
	return append(r, base[at:]...)
}

// c13Base generates the ops for one base session: accessors and
// restarts inserted at every position (short sessions) or at seeded
// positions (long ones).
func (g *gen) c13Base() []Op {
	saveB := g.bigRate
	if g.chance(0.9) {
		g.bigRate = 0
	}
	defer func() { g.bigRate = saveB }()
	manual := g.chance(0.4)
	n := 1 + g.r.Intn(6)
	long := g.chance(0.15)
	if long {
		n = 8 + g.r.Intn(22)
	}
	var base []Step
	for i := 0; i < n; i++ {
		if manual {
			base = append(base, g.manualWriteStep())
		} else {
			base = append(base, g.builderWriteStep())
		}
		if g.chance(g.yieldDensity * 0.5) {
			base = append(base, Step{A: "y"})
		}
		if g.chance(0.1) {
			base = append(base, Step{A: "poison"})
		}
	}
	if g.chance(0.2) {
		// an unsafe write of nothing somewhere: it opens an envelope that
		// holds nothing (a trailing open marker, which finalisation removes
		// by reslicing rather than by adding a closing marker)
		at := g.r.Intn(len(base) + 1)
		if manual {
			base = insertStep(base, at, Step{A: "mw", I: 0, S: ""})
		} else {
			base = insertStep(base, at, Step{A: "us", S: ""})
		}
	}
	if g.chance(0.12) {
		// start from one of the degenerate states: a buffer that is empty
		// while an envelope is open (its whole content was a closing marker,
		// elided by the unsafe write that follows), an envelope that holds
		// nothing, content that is one lone marker
		var pre []Step
		if manual {
			pre = [][]Step{
				{{A: "mw", I: 2, S: "›"}, {A: "mw", I: 0, S: ""}},
				{{A: "mw", I: 2, S: "›"}, {A: "setmode", I: 0}, {A: "wS", S: ""}},
				{{A: "mw", I: 0, S: ""}},
				{{A: "mw", I: 2, S: "‹"}, {A: "mw", I: 1, S: ""}},
				{{A: "mw", I: 2, S: "x›"}, {A: "mw", I: 0, S: ""}},
			}[g.r.Intn(5)]
		} else {
			pre = [][]Step{
				{{A: "pr", V: []Val{{K: "rs", S: "›"}}}, {A: "us", S: ""}},
				{{A: "us", S: ""}},
				{{A: "pr", V: []Val{{K: "rs", S: "‹"}}}, {A: "ss", S: ""}},
				{{A: "pr", V: []Val{{K: "rs", S: "x›"}}}, {A: "us", S: ""}},
			}[g.r.Intn(4)]
		}
		base = append(append([]Step{}, pre...), base...)
		if len(base) > 6 && !long {
			base = base[:6]
		}
	}
	N := 0
	if manual {
		N = 1
	}
	var ops []Op
	mk := func(steps []Step) { ops = append(ops, Op{K: "bsession", N: N, S: steps}) }
	if long {
		s := base
		for k := 0; k < 6; k++ {
			at := g.r.Intn(len(s) + 1)
			if g.chance(0.7) {
				s = insertStep(s, at, Step{A: g.pick(accessorList)})
			} else {
				s = insertStep(s, at, Step{A: g.pick(restartList)})
			}
		}
		mk(s)
		return ops
	}
	// an accessor at every position, all at once
	var all []Step
	for i := 0; i <= len(base); i++ {
		all = append(all, Step{A: accessorList[(i+g.r.Intn(6))%6]})
		if i < len(base) {
			all = append(all, base[i])
		}
	}
	mk(all)
	for at := 0; at <= len(base); at++ {
		// one accessor (or a burst of all six, thorough) at this position
		if g.thorough {
			var burst []Step
			for _, a := range accessorList {
				burst = append(burst, Step{A: a})
			}
			mk(insertStep(base, at, burst...))
			for _, r := range restartList {
				mk(insertStep(base, at, Step{A: r}))
			}
		} else {
			mk(insertStep(base, at, Step{A: accessorList[(at+g.r.Intn(6))%6]}, Step{A: accessorList[g.r.Intn(6)]}))
			mk(insertStep(base, at, Step{A: restartList[(at+g.r.Intn(3))%3]}))
		}
	}
	return ops
}
