package main

import (
	"os"
	"os/signal"
	"runtime/pprof"
	"time"
)

func startProfile(path string) {
	f, err := os.Create(path)
	if err != nil {
		return
	}
	pprof.StartCPUProfile(f)
	go func() {
		c := make(chan os.Signal, 1)
		signal.Notify(c, os.Interrupt)
		select {
		case <-c:
		case <-time.After(20 * time.Second):
		}
		pprof.StopCPUProfile()
		f.Close()
		os.Exit(0)
	}()
}
