package main

// Workload generator for C11.

import (
	"strings"
	"unicode/utf8"
)

type targetSpec struct {
	kind   string
	method string
	verbs  []string // directives usable for this target
}

var strVerbs = []string{"%v", "%s", "%v", "%s", "%x", "%X", "%q", "%10v", "%-12s", "%.3s", "% x", "%+v", "%08s"}
var anyVerbs = []string{"%v", "%s", "%d", "%x", "%q", "%+v", "%#v", "%10v", "%-8d", "%é"}

func (g *gen) c11Targets(hook bool) []targetSpec {
	ts := []targetSpec{
		{"stringer", "String", strVerbs},
		{"gostringer", "GoString", []string{"%#v"}},
		{"formatter", "Format", anyVerbs},
		{"safefmt", "SafeFormat", anyVerbs},
		{"safemsg", "SafeMessage", strVerbs},
		{"safeval", "String", strVerbs},
		{"regsafe", "String", strVerbs},
		{"errsafefmt", "SafeFormat", anyVerbs},
		{"nilstringer", "String", []string{"%v", "%s"}},
		{"liststringer", "String", strVerbs},
		{"intstringer", "String", strVerbs},
		{"strformatter", "Format", anyVerbs},
	}
	if hook {
		ts = append(ts, targetSpec{"hookerr", "Hook", anyVerbs})
	} else {
		ts = append(ts,
			targetSpec{"error", "Error", strVerbs},
			targetSpec{"wraperr", "Error", strVerbs},
			targetSpec{"errstr", "Error", strVerbs},
			targetSpec{"errfmt", "Format", anyVerbs},
			targetSpec{"nilerror", "Error", []string{"%v", "%s"}},
			targetSpec{"maperror", "Error", strVerbs},
		)
	}
	return ts
}

func (g *gen) c11Payloads() [][]Val {
	tok := payloadToken
	return [][]Val{
		// payloads end in ASCII: a dangling partial UTF-8 sequence at the
		// very end of a rendering gains a '?' in isolation but not when
		// more text of the same mode follows, and the oracle renders the
		// payload in isolation
		{{K: "str", S: Str(tok + " boom " + g.payload() + ".")}},
		{{K: "str", S: Str(tok + "‹›\n" + g.payload() + "!")}},
		{{K: "goerr", S: Str(tok + " err " + g.payload() + ".")}},
		{{K: "rterr", I: int64(g.r.Intn(3))}},
		{{K: "int", I: int64(g.r.Intn(100))}},
		{{K: "struct", I: 3, S: Str(tok + g.payload())}},
		{{K: "stringer", ID: 900, R: Str(tok + "P:" + g.payload() + ";")}},
		{{K: "nilpanic"}},
		// a payload that is a redactable string (its safe parts stay safe), and
		// one that is a SafeFormatter: rendered as they render on their own
		{{K: "rs", S: Str("rsafe " + mStart + "runsafe" + mEnd + ".")}},
		{{K: "safefmt", ID: 902, P: []Step{{A: "ss", S: "ps"}, {A: "us", S: "pu"}, {A: "ss", S: "."}}}},
	}
}

// c11Bases generates the ops of all placements of one base call.
func (g *gen) c11Base(hook bool) []Op {
	saveP, saveR := g.panicRate, g.reenterRate
	g.panicRate = 0 // the only panic of a panicx op is the placed one
	defer func() { g.panicRate, g.reenterRate = saveP, saveR }()
	g.nextID = 0
	ts := g.c11Targets(hook)
	spec := ts[g.r.Intn(len(ts))]
	target := g.scripted(spec.kind, 1)
	if len(target.P) > 8 {
		target.P = target.P[:8]
	}
	nilrcv := strings.HasPrefix(spec.kind, "nil")
	if nilrcv {
		target = Val{K: spec.kind, ID: g.id()}
	} else if g.chance(0.4) {
		// the receiver is then the zero value of its (non-pointer) type: a
		// genuine panic of its method must still be reported as a panic
		target.ID = 0
	}
	dirv := g.pick(spec.verbs)
	if strings.HasSuffix(dirv, "_") { // %T does not call methods; keep it out
		dirv = "%v"
	}
	ctx := "plain"
	wrapped := target
	switch spec.kind {
	case "safeval", "regsafe":
		ctx = "safe"
	}
	canUnsafe := spec.method != "SafeFormat" && spec.method != "SafeMessage" && spec.method != "Hook" && ctx == "plain"
	switch g.r.Intn(6) {
	case 0:
		if ctx == "plain" {
			wrapped = Val{K: "safe", V: []Val{target}}
			ctx = "safe"
		}
	case 1:
		if canUnsafe {
			wrapped = Val{K: "unsafe", V: []Val{target}}
			ctx = "unsafe"
		}
	}
	depth := 1
	// position: direct operand, or element of a container
	arg := wrapped
	inContainer := false
	// (a registered-safe type inside an interface-typed container has its
	// methods called before the safe override is established; that is
	// C05's business, so the combination is not generated here)
	if g.chance(0.3) && wrapped.K != "safe" && wrapped.K != "unsafe" && spec.kind != "regsafe" {
		inContainer = true
		switch g.r.Intn(4) {
		case 3:
			// the target is a map KEY
			arg = Val{K: "kmap", V: []Val{wrapped}}
		case 0:
			arg = Val{K: "slice", V: []Val{g.simple(), wrapped, g.simple()}}
		case 1:
			arg = Val{K: "struct", I: 7, S: Str(g.payload()), V: []Val{wrapped}}
		default:
			arg = Val{K: "map", V: []Val{g.simple(), wrapped}}
		}
		if spec.method == "GoString" {
			inContainer = false
			arg = wrapped
		}
	}
	_ = inContainer
	verb := dirv[len(dirv)-1:]
	if strings.HasSuffix(dirv, "é") {
		verb = "é"
	}
	pre, post := g.simple(), g.simple()
	args := []Val{pre, arg, post}
	format := g.lit() + "%v" + g.lit() + dirv + g.lit() + "%v" + g.lit()
	var in Op
	route := g.r.Intn(8)
	if spec.method == "GoString" && (route == 1 || route == 2 || route == 4) {
		route = 0
	}
	isErr := spec.kind == "error" || spec.kind == "wraperr" || spec.kind == "errstr" || spec.kind == "errfmt" || spec.kind == "errsafefmt" || spec.kind == "hookerr"
	switch route {
	case 0:
		in = Op{K: "sprintf", F: Str(format), A: args}
	case 1:
		in = Op{K: "sprint", A: args}
		dirv, verb = "%v", "v"
	case 2:
		in = Op{K: "fprint", A: args, W: &WSpec{Kind: "ok"}}
		dirv, verb = "%v", "v"
	case 3:
		in = Op{K: "fprintf", F: Str(format), A: args, W: &WSpec{Kind: "ok"}}
	case 4:
		// nested: Print/Printf inside a Sprintfn body
		depth = 2
		var st Step
		if g.chance(0.5) {
			st = Step{A: "pf", S: Str(format), V: args}
		} else {
			st = Step{A: "pr", V: args}
			dirv, verb = "%v", "v"
		}
		in = Op{K: "sprintfn", S: []Step{{A: "ss", S: Str(g.payload())}, {A: "us", S: Str(g.payload())}, st, {A: "us", S: Str(g.payload())}, {A: "ss", S: "end"}}}
	case 5:
		// nested: inside the SafeFormat method of an enclosing value
		depth = 2
		encl := Val{K: "safefmt", ID: g.id(), P: []Step{{A: "ss", S: Str(g.payload())}, {A: "pf", S: Str(format), V: args}, {A: "us", S: Str(g.payload())}}}
		if g.chance(0.4) {
			depth = 3
			in = Op{K: "sprintfn", S: []Step{{A: "us", S: "a"}, {A: "pr", V: []Val{{K: "int", I: 1}, encl}}, {A: "ss", S: "z"}}}
		} else {
			in = Op{K: "sprintf", F: Str(g.lit() + "%v" + g.lit()), A: []Val{encl}}
		}
	case 6:
		// builder route
		depth = 2
		in = Op{K: "builder", S: []Step{{A: "us", S: Str(g.payload())}, {A: "pf", S: Str(format), V: args}, {A: "ss", S: Str(g.payload())}}}
	default:
		if isErr && !inContainer && spec.method != "GoString" {
			// the %w operand of HelperForErrorf
			in = Op{K: "errorf", F: Str(g.lit() + "%v" + g.lit() + "%w" + g.lit() + "%v"), A: []Val{pre, wrapped, post}}
			dirv, verb = "%w", "w"
		} else {
			in = Op{K: "sprintf", F: Str(format), A: args}
		}
	}
	// A dangling partial UTF-8 sequence next to a mode switch
	// legitimately gains a '?', and the twin and the faulted call switch
	// modes at different places around the target: keep the base call's
	// own strings valid UTF-8 (panic payloads stay arbitrary).
	{
		orig := append([]Step{}, findVal(&in, target.ID).P...)
		st := &sites{}
		st.walkOp(&in)
		for _, x := range st.strs {
			*x = Str(strings.ToValidUTF8(string(*x), "?"))
		}
		tv := findVal(&in, target.ID)
		if spec.method == "Format" && len(orig) == len(tv.P) {
			// the Format program's own writes keep arbitrary bytes (a chunk
			// may end in the middle of a rune); the expectation knows the
			// one seam rule that matters there (expectedFromTwin)
			for i := range orig {
				if orig[i].A == "w" || orig[i].A == "ws" {
					tv.P[i].S = orig[i].S
				}
			}
		}
		target = *tv
	}
	L := len(target.P)
	if nilrcv {
		L = 0
	}
	pays := g.c11Payloads()
	var ops []Op
	for k := 0; k <= L; k++ {
		np := 1
		if g.thorough {
			np = 4
		}
		for j := 0; j < np; j++ {
			pay := pays[(k+j+g.r.Intn(len(pays)))%len(pays)]
			pt := &PanicTarget{ID: target.ID, Method: spec.method, K: k, Verb: verb, Dirv: dirv, Ctx: ctx, Depth: depth, Payload: pay, NilRcv: nilrcv}
			if !nilrcv && g.chance(0.08) {
				// a payload whose own printing panics: must propagate - up
				// to the caller, or, inside an enclosing user method, up to
				// the enclosing printer, which contains it
				pt.Payload = []Val{{K: "stringer", ID: 901, R: "never", P: []Step{{A: "pa", S: "inner"}}}}
				if route == 5 {
					pt.NestedContained = true
				} else {
					pt.Nested = true
				}
			}
			ops = append(ops, Op{K: "panicx", In: cloneOp(&in), PT: pt})
		}
	}
	return ops
}

// cleanPiece: valid UTF-8 without marker runes, ending (and starting)
// with a rune drawn from a per-op window of the rune space, so that over
// many runs every kind of final byte meets every kind of seam.
func (g *gen) cleanPiece(win rune) string {
	s := strings.ToValidUTF8(g.payload(), "")
	s = strings.ReplaceAll(s, mStart, "")
	s = strings.ReplaceAll(s, mEnd, "")
	if len(s) > 40 {
		s = strings.ToValidUTF8(s[:40], "")
	}
	edge := func() string {
		r := win + rune(g.r.Intn(96))
		if !utf8.ValidRune(r) || string(r) == mStart || string(r) == mEnd {
			r = 'q'
		}
		return string(r)
	}
	switch g.r.Intn(4) {
	case 0:
		return s + edge()
	case 1:
		return edge() + s
	case 2:
		return edge()
	}
	return s
}

func (g *gen) c11Conserve() Op {
	win := rune([]int{0x20, 0x80, 0xa0, 0x100, 0x370, 0x2000, 0x2030, 0x3040, 0xfff0, 0x1f600}[g.r.Intn(10)])
	if g.chance(0.5) {
		win = rune(0x80 + g.r.Intn(0x3000))
	}
	n := 2 + g.r.Intn(7)
	var ss []Step
	for i := 0; i < n; i++ {
		switch g.r.Intn(10) {
		case 0, 1:
			ss = append(ss, Step{A: "ss", S: Str(g.cleanPiece(win))})
		case 2, 3:
			ss = append(ss, Step{A: "us", S: Str(g.cleanPiece(win))})
		case 4:
			ss = append(ss, Step{A: "sbs", S: Str(g.cleanPiece(win))})
		case 5:
			ss = append(ss, Step{A: "ubs", S: Str(g.cleanPiece(win))})
		case 6:
			ss = append(ss, Step{A: "sr", I: int64(win) + int64(g.r.Intn(96))})
		case 7:
			ss = append(ss, Step{A: "ur", I: int64(win) + int64(g.r.Intn(96))})
		case 8:
			ss = append(ss, Step{A: []string{"sy", "uy"}[g.r.Intn(2)], I: int64(32 + g.r.Intn(95))})
		default:
			ss = append(ss, Step{A: "si", I: int64(g.r.Intn(5000))})
		}
	}
	// marker runes written as runes are escaped, not conserved: keep them out
	for i := range ss {
		if (ss[i].A == "sr" || ss[i].A == "ur") && (ss[i].I == 0x2039 || ss[i].I == 0x203a) {
			ss[i].I = 'm'
		}
	}
	return Op{K: "conserve", N: g.r.Intn(2), S: ss}
}

// c11ConserveAny: arbitrary payload bytes (markers, partial markers,
// invalid UTF-8, newlines, every byte value) in random safe/unsafe write
// sequences.
func (g *gen) c11ConserveAny() Op {
	n := 2 + g.r.Intn(8)
	var ss []Step
	for i := 0; i < n; i++ {
		p := g.payload()
		if len(p) > 200 {
			p = p[:200]
		}
		switch g.r.Intn(9) {
		case 0, 1:
			ss = append(ss, Step{A: "ss", S: Str(p)})
		case 2, 3:
			ss = append(ss, Step{A: "us", S: Str(p)})
		case 4:
			ss = append(ss, Step{A: "sbs", S: Str(p)})
		case 5:
			ss = append(ss, Step{A: "ubs", S: Str(p)})
		case 6:
			ss = append(ss, Step{A: []string{"sr", "ur"}[g.r.Intn(2)], I: int64([]int{65, 0x203a, 0x2039, 0xe9, -1, 0xd800, 0x110000, 10, 0xfffd}[g.r.Intn(9)])})
		default:
			ss = append(ss, Step{A: []string{"sy", "uy"}[g.r.Intn(2)], I: int64(g.r.Intn(256))})
		}
	}
	return Op{K: "conserveany", N: g.r.Intn(2), S: ss}
}

func (g *gen) c11RuneSweep() Op {
	starts := []int{0, 0x80, 0x700, 0x2000, 0xd700, 0xd800, 0xdc00, 0xdf80, 0xff00, 0x10ff80, 0x110000 - 128, -256, 0x7fffff00}
	st := starts[g.r.Intn(len(starts))]
	if g.chance(0.6) {
		st = g.r.Intn(0x30000)
	}
	n := 256
	if g.thorough {
		n = 2048
	}
	return Op{K: "runesweep", N: st, A: []Val{{K: "int", I: int64(n)}}}
}

// c11OddFormat assembles 1-3 directives from the grammar of odd pieces.
func (g *gen) c11OddFormat() Op {
	idx := []string{"", "", "", "[1]", "[2]", "[0]", "[00]", "[3]", "[9]", "[]", "[x]", "[-1]", "[99999999999999999999]", "[ 1]"}
	wid := []string{"", "", "", "5", "0", "12", "*", "[1]*", "[0]*", "[2]*", "1000001", "2000", "-3", "70", "100", "300"}
	prec := []string{"", "", "", ".2", ".", ".0", ".*", ".[1]*", ".[0]*", ".1000001", ".[2]*", ".60", ".80", ".200", ".1"}
	flags := []string{"", "", "", "+", "-", "#", " ", "0", "+-", "-0", "# +", "00"}
	verbs := []string{"v", "d", "s", "x", "q", "c", "U", "T", "t", "e", "b", "o", "X", "!", "z", "é", "日", "", "w", "v", "d", "s"}
	clean := func() string {
		s := strings.ToValidUTF8(g.lit(), "")
		s = strings.ReplaceAll(s, mStart, "")
		s = strings.ReplaceAll(s, mEnd, "")
		if len(s) > 30 {
			s = strings.ToValidUTF8(s[:30], "")
		}
		return s
	}
	var sb strings.Builder
	var lits []Step
	lit := func() {
		l := clean()
		// keep the literal free of characters the directive grammar could
		// swallow (digits, brackets, flags), and unambiguous to find
		l = "L" + strings.Map(func(r rune) rune {
			if r >= '0' && r <= '9' || strings.ContainsRune("[]*.+-# %", r) {
				return '_'
			}
			return r
		}, l) + "."
		sb.WriteString(l)
		lits = append(lits, Step{A: "lit", S: Str(l)})
	}
	n := 1 + g.r.Intn(3)
	for i := 0; i < n; i++ {
		lit()
		v := g.pick(verbs)
		if v == "" {
			v = "d" // an empty verb would swallow the first rune of the next literal
		}
		sb.WriteString("%" + g.pick(flags) + g.pick(idx) + g.pick(wid) + g.pick(prec) + g.pick(idx) + v)
	}
	if g.chance(0.7) {
		lit()
	} else if g.chance(0.5) {
		sb.WriteString("%" + g.pick(flags) + g.pick(idx) + g.pick(wid)) // a directive cut short at the end
	}
	var args []Val
	for i, na := 0, g.r.Intn(4); i < na; i++ {
		switch g.r.Intn(4) {
		case 0:
			args = append(args, Val{K: "str", S: Str(clean())})
		case 1:
			args = append(args, Val{K: "int", I: int64(g.r.Intn(40) - 5)})
		case 2:
			args = append(args, Val{K: "int", I: int64(g.r.Intn(3000))})
		default:
			switch g.r.Intn(6) {
			case 0:
				args = append(args, Val{K: "i64", I: -9223372036854775808})
			case 1:
				args = append(args, Val{K: "nan"})
			case 2:
				args = append(args, Val{K: "inf", I: int64(g.r.Intn(2)) - 1})
			case 3:
				args = append(args, Val{K: "str", S: Str(strings.Repeat("日本語テキストé", 1+g.r.Intn(9)))})
			case 4:
				args = append(args, Val{K: "bytes", S: Str(strings.Repeat("\x00\xffab", 1+g.r.Intn(30)))})
			default:
				args = append(args, Val{K: "f64", I: int64(g.r.Intn(100))})
			}
		}
	}
	return Op{K: "fmtsweep", F: Str(sb.String()), A: args, S: lits}
}

// c11Helpers: EscapeBytes, EscapeMarkers, Join, JoinTo, SortStrings,
// StringWithoutMarkers, ToBytes/ToString on 0..4 pieces; N=1: the pieces
// need no escaping, so content must be conserved exactly.
func (g *gen) c11Helpers() Op {
	op := Op{K: "helpers"}
	clean := g.chance(0.6)
	if clean {
		op.N = 1
	}
	win := rune(0x80 + g.r.Intn(0x3000))
	for i, n := 0, g.r.Intn(5); i < n; i++ {
		if clean {
			op.A = append(op.A, Val{K: "str", S: Str(g.cleanPiece(win))})
		} else {
			op.A = append(op.A, Val{K: "str", S: Str(g.payload())})
		}
	}
	switch g.r.Intn(4) {
	case 0:
		op.F = ""
	case 1:
		op.F = ", "
	case 2:
		op.F = Str(mStart + "d" + mEnd)
	default:
		op.F = Str("a" + mStart + "b" + mEnd + "c")
	}
	return op
}

// domain-edge ops for the first sentence of C11 (sampled, see DESIGN §5.1)
func (g *gen) c11Edge() Op {
	switch g.r.Intn(10) {
	case 7:
		return g.c11Helpers()
	case 8:
		return g.c11ConserveAny()
	case 9:
		switch g.r.Intn(3) {
		case 0:
			return Op{K: "exotic", N: g.r.Intn(1000)}
		case 1:
			return Op{K: "numsweep", N: g.r.Intn(1 << 20)}
		}
		return g.c11ConserveAny()
	case 0, 1:
		return g.c11Conserve()
	case 2:
		return g.c11RuneSweep()
	case 3, 4:
		return g.c11OddFormat()
	}
	runes := []int64{-1, -2, 0xd800, 0xdbff, 0xdc00, 0xdfff, 0x110000, 0x7fffffff, -0x80000000, 0, 0x10ffff, 0xfffd, 0x2039, 0x203a}
	ru := runes[g.r.Intn(len(runes))]
	if g.chance(0.4) {
		ru = 0xd800 + int64(g.r.Intn(2048))
	}
	switch g.r.Intn(7) {
	case 0:
		pre := g.safeScriptNoCtl(g.r.Intn(3))
		return Op{K: "builder", S: append(pre, Step{A: g.pick([]string{"sr", "ur", "wR"}), I: ru}, Step{A: "ss", S: "tail"})}
	case 1:
		return Op{K: "sprintfn", S: []Step{{A: "us", S: Str(g.payload())}, {A: g.pick([]string{"sr", "ur"}), I: ru}, {A: "ss", S: "tail"}}}
	case 2:
		return Op{K: "manual", S: []Step{{A: "mw", I: int64(g.r.Intn(2)), S: Str(g.payload())}, {A: "mwr", I: ru*2 + int64(g.r.Intn(2))}, {A: "mw", I: 1, S: "tail"}}}
	case 3:
		// JoinTo with operands that are not slices
		vs := []Val{{K: "nil"}, {K: "int", I: 5}, {K: "str", S: Str(g.payload())}, {K: "nilstringer", ID: 1}, {K: "struct", I: 1, S: "s"}, {K: "map", V: []Val{{K: "int", I: 1}}}, {K: "typednilerr"}, {K: "bytes", S: "xy"}, {K: "strs"}}
		return Op{K: "jointo", F: Str(g.redactableLit()), A: []Val{vs[g.r.Intn(len(vs))]}, Dst: g.safeScriptNoCtl(g.r.Intn(2))}
	case 4:
		return Op{K: "sprintf", F: Str("%c|%q|%U|%x|%v"), A: []Val{{K: "rune", I: ru}, {K: "rune", I: ru}, {K: "rune", I: ru}, {K: "rune", I: ru}, {K: "srune", I: ru}}}
	case 5:
		return Op{K: "sprint", A: []Val{{K: "nil"}, {K: "typednilerr"}, {K: "nilstringer", ID: 1}, {K: "nilerror", ID: 2}, {K: "safe", V: []Val{{K: "nil"}}}, {K: "unsafe", V: []Val{{K: "nil"}}}}}
	default:
		return Op{K: "builder", S: []Step{{A: "sy", I: int64(g.r.Intn(256))}, {A: "uy", I: int64(g.r.Intn(256))}, {A: "wb", I: int64(g.r.Intn(256))}, {A: "ubs", S: Str(g.payload())}, {A: "sbs", S: Str(g.payload())}}}
	}
}
