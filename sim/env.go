package main

// env: the per-task execution environment. Exactly one goroutine ever
// touches a given env (the task that owns it, or the main goroutine for
// the reference environment), so its fields need no synchronisation and
// the race detector keeps that honest.

import (
	"fmt"
	"hash/fnv"
	"runtime"
	"strings"
)

// fault kinds whose *firing* is counted (not merely configured)
const (
	fPanic = iota
	fCallbackBlocks
	fCallbackReenters
	fWriterErr
	fWriterShort
	fWriterPanic
	fWriterBlocks
	fWriterReenters
	fWriterKeeps
	fRestart
	fEscapedPanic
	nFaultKinds
)

var faultNames = [...]string{
	"callback_panic", "callback_blocks", "callback_reenters", "writer_error", "writer_short",
	"writer_panic", "writer_blocks", "writer_reenters", "writer_keeps_slice", "builder_restart",
	"escaped_panic_abandons_printer",
}

type Stats struct {
	Fired          [nFaultKinds]int
	Ops            int
	OpsOnRecycled  int // ops whose first printer was a recycled one
	OpsByClass     [nClasses]int
	Matrix         [nClasses + 1][nClasses]int // [prev class+1][this class]
	PoisonedBytes  int
	HookCalls      int
	HeldChecks     int
	HeldBytes      int
	PanicPlace     map[string]int // C11: method/depth -> placements executed
	PutStates      map[string]int // state of printers at put (diagnostic)
	AbsStates      map[string]int // C13: abstract buffer states at accessor/restart calls
	Routes         map[string]int // C16: route x writer behaviour
	Extra          map[string]int
	InterleavedOps int // ops during which another task completed at least one op
}

func newStats() *Stats {
	return &Stats{PanicPlace: map[string]int{}, PutStates: map[string]int{}, AbsStates: map[string]int{}, Routes: map[string]int{}, Extra: map[string]int{}}
}

func (a *Stats) add(b *Stats) {
	for i := range a.Fired {
		a.Fired[i] += b.Fired[i]
	}
	a.Ops += b.Ops
	a.OpsOnRecycled += b.OpsOnRecycled
	for i := range a.OpsByClass {
		a.OpsByClass[i] += b.OpsByClass[i]
	}
	for i := range a.Matrix {
		for j := range a.Matrix[i] {
			a.Matrix[i][j] += b.Matrix[i][j]
		}
	}
	a.PoisonedBytes += b.PoisonedBytes
	a.HookCalls += b.HookCalls
	a.HeldChecks += b.HeldChecks
	a.HeldBytes += b.HeldBytes
	a.InterleavedOps += b.InterleavedOps
	addMap(a.PanicPlace, b.PanicPlace)
	addMap(a.PutStates, b.PutStates)
	addMap(a.AbsStates, b.AbsStates)
	addMap(a.Routes, b.Routes)
	addMap(a.Extra, b.Extra)
}

func addMap(a, b map[string]int) {
	for k, v := range b {
		a[k] += v
	}
}

type held struct {
	s    string
	b    []byte
	h    uint64
	op   int
	what string
}

type env struct {
	t     *task // nil: reference mode
	plan  *Plan
	prop  string
	defs  map[int]*Val
	stats *Stats
	viol  []Violation
	held  []held
	owned [][]byte // byte slices built as operands of the current op

	opIdx     int
	curClass  int
	lockDepth int // real locks of the library held by this task (build overlay)
	holding   int // printers currently checked out by this task
	depth     int // user-method nesting depth
	shadow    int // >0: running under std fmt as reference model: no yields, no counters
	firstGet  bool
	sawOther  bool

	refGets, refPuts int

	expected []Outcome // reference outcomes of this task's ops
	results  []Outcome
	methods  []string // stack of user methods being executed
	sinkCh   chan handoff
	shOf     map[*hooksPrinter]*pshared // printers this task holds
}

type handoff struct {
	s    string
	b    []byte
	h    uint64
	from int
	op   int
	what string
}

// refEnv is the environment of reference executions (main goroutine).
var refEnv *env

//go:norace
func curEnv() *env {
	if freeMode {
		return freeEnvOf()
	}
	if t := current; t != nil {
		return t.env
	}
	return refEnv
}

func newEnv(plan *Plan, t *task) *env {
	return &env{t: t, plan: plan, prop: plan.Prop, defs: map[int]*Val{}, stats: newStats(), shOf: map[*hooksPrinter]*pshared{}}
}

func (e *env) yield(kind int) {
	if freeMode {
		runtime.Gosched()
		return
	}
	if e.lockDepth > 0 {
		// the library holds one of its own locks: switching tasks now
		// could park this task while another blocks on that lock for good
		return
	}
	if e.t != nil && e.shadow == 0 {
		if kind == yCallback {
			e.fired(fCallbackBlocks)
		}
		e.t.yield(kind)
	}
}

func (e *env) fired(k int) {
	if e.shadow == 0 {
		e.stats.Fired[k]++
	}
}

func (e *env) enter(method string) {
	e.depth++
	e.methods = append(e.methods, method)
}

func (e *env) leave() {
	e.depth--
	e.methods = e.methods[:len(e.methods)-1]
}

func (e *env) violate(prop, inv, detail string) {
	e.violateX(prop, inv, detail, "", "")
}

func (e *env) violateX(prop, inv, detail, expected, actual string) {
	id := -1
	if e.t != nil {
		id = e.t.id
	}
	e.viol = append(e.viol, Violation{Prop: prop, Invariant: inv, Task: id, OpIdx: e.opIdx, Detail: detail,
		Expected: clip(expected), Actual: clip(actual)})
}

func clip(s string) string {
	if len(s) > 600 {
		return s[:300] + fmt.Sprintf("…[%d bytes]…", len(s)-600) + s[len(s)-300:]
	}
	return s
}

// noteHistory is called by the pool seam when this task receives a
// printer: prev is the class of the op that last used it (-1: fresh).
func (e *env) noteHistory(prev int) {
	e.stats.Matrix[prev+1][e.curClass]++
	if !e.firstGet {
		e.firstGet = true
		if prev >= 0 {
			e.stats.OpsOnRecycled++
		}
	}
}

func (e *env) notePutState(st *printerState) {
	k := fmt.Sprintf("ovr=%d pan=%v err=%v wrap=%v werr=%v cap=%s", st.Override, st.Panicking, st.Erroring, st.WrapErrs, st.WrappedErr, capClass(st.BufCap))
	e.stats.PutStates[k]++
}

func capClass(c int) string {
	switch {
	case c == 0:
		return "0"
	case c <= 64:
		return "<=64"
	case c <= 64<<10:
		return "<=64K"
	}
	return ">64K"
}

func hashBytes(b []byte) uint64 {
	h := fnv.New64a()
	h.Write(b)
	return h.Sum64()
}

func hashString(s string) uint64 {
	h := fnv.New64a()
	h.Write([]byte(s))
	return h.Sum64()
}

// hold remembers a value the library returned so that it can be
// re-verified after everything that happens later.
func (e *env) holdString(s string, what string) {
	if e.t == nil || len(s) == 0 {
		return
	}
	e.held = append(e.held, held{s: s, h: hashString(s), op: e.opIdx, what: what})
}

func (e *env) holdBytes(b []byte, what string) {
	if e.t == nil || len(b) == 0 {
		return
	}
	e.held = append(e.held, held{b: b, h: hashBytes(b), op: e.opIdx, what: what})
}

// own remembers a byte slice that the harness built as (part of) an
// operand of the current op. The caller owns it: when the op is over the
// harness overwrites it, as a caller that reuses its buffer would, and
// what the library returned must not change (runOpSim).
func (e *env) own(b []byte) []byte {
	e.owned = append(e.owned, b)
	return b
}

func (e *env) scribbleOwned() {
	for _, b := range e.owned {
		for i := range b {
			b[i] = 'Z'
		}
		e.stats.Extra["operand_bytes_overwritten_after_the_call"] += len(b)
	}
	e.owned = e.owned[:0]
}

// recheck re-hashes held values: the last `recent` ones, or all of them
// when recent <= 0.
func (e *env) recheck(recent int, prop string) {
	from := 0
	if recent > 0 && len(e.held) > recent {
		from = len(e.held) - recent
	}
	for i := from; i < len(e.held); i++ {
		h := &e.held[i]
		var now uint64
		if h.b != nil {
			now = hashBytes(h.b)
			e.stats.HeldBytes += len(h.b)
		} else {
			now = hashString(h.s)
			e.stats.HeldBytes += len(h.s)
		}
		e.stats.HeldChecks++
		if now != h.h {
			cur := h.s
			if h.b != nil {
				cur = string(h.b)
			}
			save := e.opIdx
			e.opIdx = h.op
			e.violateX(prop, "returned-value-modified", fmt.Sprintf("%s returned by op %d changed after it was returned (noticed after op %d)", h.what, h.op, save), "", cur)
			e.opIdx = save
			h.h = now // report once
		}
	}
}

// Outcome is everything observable about one executed op.
type Outcome struct {
	Out    string   `json:"out"`
	N      int      `json:"n,omitempty"`
	Err    string   `json:"err,omitempty"`
	ErrArg int      `json:"errarg,omitempty"` // 1+index of the operand the returned error is identical to; 0 none; -1 non-nil but no operand
	Writes []string `json:"writes,omitempty"`
	Panic  string   `json:"panic,omitempty"`
	Extra  []string `json:"extra,omitempty"`
	Checks []string `json:"checks,omitempty"` // in-op oracle failures "inv: detail"
}

func (o *Outcome) stripped() string {
	return string(redactableStrip(o.Out))
}

func (o *Outcome) digest() string {
	var sb strings.Builder
	fmt.Fprintf(&sb, "out=%q n=%d err=%q errarg=%d panic=%q", o.Out, o.N, o.Err, o.ErrArg, o.Panic)
	for _, w := range o.Writes {
		fmt.Fprintf(&sb, " w=%q", w)
	}
	for _, x := range o.Extra {
		fmt.Fprintf(&sb, " x=%q", x)
	}
	return sb.String()
}

func (o *Outcome) equal(p *Outcome) bool { return o.digest() == p.digest() }

// immutabilityProp: which property a "value changed after it was
// returned" finding belongs to in this check.
func (e *env) immutabilityProp() string {
	switch e.prop {
	case "C13", "C16":
		return e.prop
	}
	return "C12"
}
