package main

import (
	"encoding/json"
	"flag"
	"fmt"
	"os"
	"path/filepath"
	"sort"
	"strings"
	"time"
)

// WorkerStats is what one worker process reports to the driver.
type WorkerStats struct {
	Prop        string                      `json:"prop"`
	Race        bool                        `json:"race_build"`
	FirstSeed   int64                       `json:"first_seed"`
	Runs        int                         `json:"runs"`
	Nontrivial  int                         `json:"nontrivial_runs"`
	Distinct    map[string]int              `json:"-"`
	DistinctN   int                         `json:"distinct_nontrivial"`
	Traces      int                         `json:"distinct_schedule_traces"`
	Events      int                         `json:"events"`
	Switches    int                         `json:"task_switches"`
	Ops         int                         `json:"ops"`
	OpsRecycled int                         `json:"ops_started_on_recycled_printer"`
	Interleaved int                         `json:"ops_during_which_another_op_completed"`
	Yields      map[string]int              `json:"yields_by_kind"`
	Fired       map[string]int              `json:"faults_fired"`
	Pool        poolStats                   `json:"pool"`
	MatrixCells int                         `json:"history_matrix_nonempty_cells"`
	Matrix      [nClasses + 1][nClasses]int `json:"history_matrix"`
	PanicPlace  map[string]int              `json:"panic_placements,omitempty"`
	PutStates   map[string]int              `json:"printer_state_at_put,omitempty"`
	AbsStates   map[string]int              `json:"abstract_buffer_states,omitempty"`
	Routes      map[string]int              `json:"routes,omitempty"`
	Extra       map[string]int              `json:"extra,omitempty"`
	HeldChecks  int                         `json:"returned_value_rehashes"`
	SinkReads   int                         `json:"sink_rereads"`
	MaxTasks    int                         `json:"max_tasks"`
	Violations  []FoundViolation            `json:"violations,omitempty"`
	RaceSeeds   []int64                     `json:"race_seeds,omitempty"`
	Samples     []json.RawMessage           `json:"samples,omitempty"`
	WallS       float64                     `json:"wall_s"`
	traceSet    map[uint64]bool
	digestSet   map[uint64]bool
}

type FoundViolation struct {
	Seed   int64     `json:"seed"`
	V      Violation `json:"violation"`
	Replay string    `json:"replay"`
	MinOps int       `json:"ops_after_minimisation"`
	Known  string    `json:"known_finding,omitempty"`
}

func newWorkerStats(prop string) *WorkerStats {
	return &WorkerStats{Prop: prop, Yields: map[string]int{}, Fired: map[string]int{}, PanicPlace: map[string]int{},
		PutStates: map[string]int{}, AbsStates: map[string]int{}, Routes: map[string]int{}, Extra: map[string]int{},
		traceSet: map[uint64]bool{}, digestSet: map[uint64]bool{}}
}

// nontrivial: was the property's mechanism actually in play in this run?
func nontrivial(prop string, r *RunResult) bool {
	switch prop {
	case "C11":
		return r.Stats.Fired[fPanic] > 0
	case "C13":
		return r.SinkReads > 0 && r.Stats.Fired[fRestart]+r.Stats.Extra["accessor_calls"] > 0
	case "C16":
		return r.Stats.Extra["route_groups"] > 0
	case "C15":
		return r.Stats.Extra["errorf_checked"] > 0 && r.Stats.OpsOnRecycled > 0
	}
	return r.Stats.OpsOnRecycled > 0
}

func (w *WorkerStats) absorb(prop string, r *RunResult) {
	w.Runs++
	if nontrivial(prop, r) {
		w.Nontrivial++
		d := hashString(r.Digest) ^ r.Trace
		w.digestSet[d] = true
	}
	w.traceSet[r.Trace] = true
	w.Events += r.Events
	w.Switches += r.Switches
	w.Ops += r.Stats.Ops
	w.OpsRecycled += r.Stats.OpsOnRecycled
	w.Interleaved += r.Stats.InterleavedOps
	for i, n := range r.Yields {
		w.Yields[yieldNames[i]] += n
	}
	for i, n := range r.Stats.Fired {
		w.Fired[faultNames[i]] += n
	}
	w.Fired["pool_fresh"] += r.Pool.GetsFresh
	w.Fired["pool_recycled_cross_task"] += r.Pool.GetsRecycledX
	w.Fired["pool_drop"] += r.Pool.Drops
	w.Fired["pool_flush"] += r.Pool.Flushes
	w.Fired["poisoned_bytes"] += r.Pool.PoisonedBytes
	w.Pool.add(&r.Pool)
	for i := range w.Matrix {
		for j := range w.Matrix[i] {
			w.Matrix[i][j] += r.Stats.Matrix[i][j]
		}
	}
	addMap(w.PanicPlace, r.Stats.PanicPlace)
	addMap(w.PutStates, r.Stats.PutStates)
	addMap(w.AbsStates, r.Stats.AbsStates)
	addMap(w.Routes, r.Stats.Routes)
	addMap(w.Extra, r.Stats.Extra)
	w.HeldChecks += r.Stats.HeldChecks
	w.SinkReads += r.SinkReads
	if r.Tasks > w.MaxTasks {
		w.MaxTasks = r.Tasks
	}
}

func (w *WorkerStats) finish() {
	w.DistinctN = len(w.digestSet)
	w.Traces = len(w.traceSet)
	w.MatrixCells = 0
	for i := range w.Matrix {
		for j := range w.Matrix[i] {
			if w.Matrix[i][j] > 0 {
				w.MatrixCells++
			}
		}
	}
}

func raceBuild() bool { return raceEnabled }

// raceLogSize returns the size of this process's race report file.
func raceLogSize() int64 {
	p := os.Getenv("VERIF_RACE_LOG")
	if p == "" {
		return 0
	}
	fi, err := os.Stat(fmt.Sprintf("%s.%d", p, os.Getpid()))
	if err != nil {
		return 0
	}
	return fi.Size()
}

func sameViolation(key string, r *RunResult) bool {
	for i := range r.Viol {
		if r.Viol[i].key() == key {
			return true
		}
	}
	return false
}

func cmdRun(args []string) {
	fs := flag.NewFlagSet("run", flag.ExitOnError)
	prop := fs.String("prop", "C12", "property")
	seed := fs.Int64("seed", 1, "first seed")
	n := fs.Int("n", 100, "number of runs")
	tier := fs.String("tier", "quick", "")
	outPath := fs.String("out", "", "stats file")
	replayDir := fs.String("replaydir", "", "where replay files go")
	logEv := fs.Bool("log", false, "print event logs")
	maxSec := fs.Float64("maxsec", 0, "stop starting new runs after this many seconds")
	noMin := fs.Bool("nomin", false, "do not minimise")
	hashOnly := fs.Bool("hash", false, "print a hash of each run's event log and outcome digests")
	fs.Parse(args)

	start := time.Now()
	ws := newWorkerStats(*prop)
	ws.Race = raceBuild()
	ws.FirstSeed = *seed
	seenKeys := map[string]bool{}
	// a broken tree can fail in dozens of ways per run: minimise the first
	// few distinct failures, within a wall-clock budget; save a few more
	// unminimised; count the rest
	const maxMinimised, maxSaved = 3, 5
	postBudget := 60 * time.Second // all minimisation work of this worker
	if *tier == "thorough" {
		postBudget = 240 * time.Second
	}
	var postDeadline time.Time
	nSaved := 0
	for i := 0; i < *n; i++ {
		if *maxSec > 0 && time.Since(start).Seconds() > *maxSec {
			break
		}
		if nSaved >= maxSaved {
			// the verdict is clear; more runs on a tree this broken add nothing
			ws.Extra["worker_stopped_early_after_violations"]++
			break
		}
		sd := *seed + int64(i)
		fmt.Printf("BEGIN seed=%d\n", sd)
		plan := generate(*prop, sd, *tier)
		before := raceLogSize()
		res := execute(plan, execOpts{log: *logEv || *hashOnly})
		if *logEv {
			fmt.Print(res.Log)
			fmt.Print(res.Digest)
		}
		if *hashOnly {
			fmt.Printf("HASH seed=%d %016x %016x events=%d\n", sd, hashString(res.Log), hashString(res.Digest), res.Events)
		}
		ws.absorb(*prop, res)
		if i < 3 {
			ws.Samples = append(ws.Samples, samplePlan(plan))
		}
		if raceLogSize() > before {
			ws.RaceSeeds = append(ws.RaceSeeds, sd)
			fmt.Printf("RACE seed=%d\n", sd)
		}
		for vi := range res.Viol {
			v := res.Viol[vi]
			if v.Prop == "HARNESS" {
				fmt.Fprintf(os.Stderr, "HARNESS-TROUBLE: seed=%d %s: %s\n", sd, v.Invariant, v.Detail)
				os.Exit(2)
			}
			if v.Prop != *prop || seenKeys[v.key()] {
				continue
			}
			seenKeys[v.key()] = true
			if nSaved >= maxSaved {
				ws.Extra["violations_found_but_not_saved"]++
				continue
			}
			nSaved++
			min := plan
			if postDeadline.IsZero() {
				postDeadline = time.Now().Add(postBudget)
			}
			if !*noMin && nSaved <= maxMinimised && time.Now().Before(postDeadline) {
				key := v.key()
				min, _ = minimizeUntil(plan, func(q *Plan) bool { return sameViolation(key, execute(q, execOpts{})) }, 1500, postDeadline)
				// the violation record of the minimised plan
				r2 := execute(min, execOpts{})
				for k := range r2.Viol {
					if r2.Viol[k].key() == key {
						v = r2.Viol[k]
						break
					}
				}
			}
			min.Violation = &v
			path := ""
			if *replayDir != "" {
				path = filepath.Join(*replayDir, fmt.Sprintf("%s-seed%d-%s-%04x.json", *prop, sd, sanitize(v.Invariant), hashString(v.key())&0xffff))
				if err := min.save(path); err != nil {
					fmt.Fprintf(os.Stderr, "HARNESS-TROUBLE: cannot write replay: %v\n", err)
					os.Exit(2)
				}
				// A replay file must reproduce in a fresh process. When it
				// does not, the failure depends on what earlier runs left
				// behind in this process: record them as a prefix, and
				// minimise that.
				if !reproducesFresh(path, v.Prop) {
					pv := res.Viol[vi]
					full := plan.clone()
					full.Violation = &pv
					for s0 := *seed; s0 < sd; s0++ {
						full.Prefix = append(full.Prefix, s0)
					}
					full.save(path)
					if !reproducesFresh(path, v.Prop) {
						ws.Extra["violations_not_reproducible_in_a_fresh_process"]++
						fmt.Printf("UNREPRODUCIBLE property=%s invariant=%s seed=%d\n", v.Prop, v.Invariant, sd)
						os.Remove(path)
						nSaved--
						continue
					}
					full.Prefix = minimizePrefix(full, path, v.Prop, postDeadline)
					// then the plan itself, each candidate in a fresh process
					key := pv.key()
					small, _ := minimizeUntil(full, func(q *Plan) bool {
						qq := q.clone()
						qq.Violation = &Violation{Prop: pv.Prop, Invariant: pv.Invariant, Class: pv.Class}
						if qq.save(path) != nil {
							return false
						}
						_ = key
						return reproducesFresh(path, pv.Prop)
					}, 120, postDeadline)
					small.Violation = &pv
					full = small
					full.save(path)
					min, v = full, pv
					ws.Extra["violations_that_need_earlier_runs_in_the_same_process"]++
				}
			}
			ws.Violations = append(ws.Violations, FoundViolation{Seed: sd, V: v, Replay: path, MinOps: min.opCount()})
			fmt.Printf("FOUND property=%s invariant=%s seed=%d replay=%s\n", v.Prop, v.Invariant, sd, path)
		}
	}
	ws.WallS = time.Since(start).Seconds()
	ws.finish()
	if *outPath != "" {
		b, _ := json.Marshal(ws)
		if err := os.WriteFile(*outPath, b, 0o644); err != nil {
			fmt.Fprintf(os.Stderr, "HARNESS-TROUBLE: %v\n", err)
			os.Exit(2)
		}
	} else {
		ws.Samples = nil
		b, _ := json.MarshalIndent(ws, "", " ")
		fmt.Println(string(b))
	}
}

func sanitize(s string) string {
	return strings.Map(func(r rune) rune {
		if r >= 'a' && r <= 'z' || r >= 'A' && r <= 'Z' || r >= '0' && r <= '9' || r == '-' {
			return r
		}
		return '_'
	}, s)
}

// samplePlan renders a (truncated) plan for the evidence file.
func samplePlan(p *Plan) json.RawMessage {
	q := p.clone()
	for ti := range q.Tasks {
		if len(q.Tasks[ti].Ops) > 3 {
			q.Tasks[ti].Ops = q.Tasks[ti].Ops[:3]
		}
		if len(q.Tasks[ti].Tape) > 24 {
			q.Tasks[ti].Tape = q.Tasks[ti].Tape[:24]
		}
	}
	if len(q.Tasks) > 3 {
		q.Tasks = q.Tasks[:3]
	}
	s := planSites(q)
	for _, x := range s.strs {
		if len(*x) > 80 {
			*x = (*x)[:80] + "…"
		}
	}
	b, _ := json.Marshal(q)
	return b
}

// cmdReplay re-executes a replay file and reports whether the recorded
// violation reproduces. Exit 1 + VIOLATION line when it does, exit 0
// when the run is clean, exit 3 when a different violation shows.
func cmdReplay(args []string) {
	fs := flag.NewFlagSet("replay", flag.ExitOnError)
	logEv := fs.Bool("log", false, "print the event log")
	quiet := fs.Bool("quiet", false, "")
	fs.Parse(args)
	if fs.NArg() != 1 {
		usage()
	}
	plan, err := loadPlan(fs.Arg(0))
	if err != nil {
		fmt.Fprintf(os.Stderr, "HARNESS-TROUBLE: %v\n", err)
		os.Exit(2)
	}
	want := plan.Violation
	plan.Violation = nil
	for _, sd := range plan.Prefix {
		execute(generate(plan.Prop, sd, plan.Tier), execOpts{})
	}
	res := execute(plan, execOpts{log: *logEv})
	if *logEv {
		fmt.Print(res.Log)
		fmt.Print(res.Digest)
	}
	var keys []string
	for i := range res.Viol {
		keys = append(keys, res.Viol[i].key())
	}
	sort.Strings(keys)
	if want != nil {
		for i := range res.Viol {
			if res.Viol[i].key() == want.key() {
				if !*quiet {
					b, _ := json.MarshalIndent(res.Viol[i], "", " ")
					fmt.Println(string(b))
				}
				fmt.Printf("VIOLATION property=%s replay=%s\n", want.Prop, fs.Arg(0))
				os.Exit(1)
			}
		}
		if want.Invariant == "data-race" {
			// a race report makes the race runtime exit (halt_on_error);
			// getting here means it did not fire
			fmt.Printf("NOT-REPRODUCED %s (no race reported; is this the -race binary?)\n", want.key())
			os.Exit(0)
		}
	}
	if len(res.Viol) > 0 {
		fmt.Printf("OTHER-VIOLATIONS %s\n", strings.Join(keys, ","))
		os.Exit(3)
	}
	fmt.Println("CLEAN")
}

// reproducesFresh replays a file in a fresh process of this binary.
func reproducesFresh(path, prop string) bool {
	exe, err := os.Executable()
	if err != nil {
		return true
	}
	out, code := runCmd(nil, 90*time.Second, exe, "replay", "-quiet", path)
	return code == 1 && strings.Contains(out, "VIOLATION property="+prop)
}

// minimizePrefix: delta debugging on the list of earlier runs.
func minimizePrefix(p *Plan, path, prop string, deadline time.Time) []int64 {
	cur := append([]int64{}, p.Prefix...)
	try := func(cand []int64) bool {
		if time.Now().After(deadline) {
			return false
		}
		q := p.clone()
		q.Prefix = cand
		if q.save(path) != nil {
			return false
		}
		return reproducesFresh(path, prop)
	}
	for chunk := len(cur); chunk >= 1; chunk /= 2 {
		for at := 0; at+chunk <= len(cur); {
			cand := append(append([]int64{}, cur[:at]...), cur[at+chunk:]...)
			if try(cand) {
				cur = cand
			} else {
				at += chunk
			}
		}
	}
	return cur
}
