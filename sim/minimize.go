package main

// Minimisation: delta debugging on the plan. An edit is kept iff the
// edited plan still fails the same invariant of the same property.

import "time"

type minimizer struct {
	test     func(*Plan) bool
	budget   int
	tests    int
	deadline time.Time
}

// exhausted: no more candidates may be tried (cloning a large plan is
// expensive in itself, so loops check this before preparing a candidate).
func (m *minimizer) exhausted() bool {
	if m.tests >= m.budget {
		return true
	}
	if !m.deadline.IsZero() && time.Now().After(m.deadline) {
		m.budget = m.tests
		return true
	}
	return false
}

func (m *minimizer) try(q *Plan) bool {
	if m.tests >= m.budget {
		return false
	}
	if !m.deadline.IsZero() && time.Now().After(m.deadline) {
		m.budget = m.tests // wall-clock cap: stop minimising, keep what we have
		return false
	}
	m.tests++
	return m.test(q)
}

// sites of an op tree
type sites struct {
	vals  []*[]Val
	steps []*[]Step
	strs  []*Str
	ops   []*Op
	// frozen > 0: inside the base call of a composite op whose other
	// fields (placement, verb, context) refer to its structure: only
	// payload strings may be edited there
	frozen int
}

func (s *sites) walkOp(op *Op) {
	s.ops = append(s.ops, op)
	if s.frozen > 0 {
		for i := range op.A {
			s.walkVal(&op.A[i])
		}
		s.walkSteps(op.S)
		s.walkSteps(op.Dst)
		if op.In != nil {
			s.walkOp(op.In)
		}
		return
	}
	if op.K == "fmtsweep" {
		// format and literal list belong together
		s.frozen++
		for i := range op.A {
			s.walkVal(&op.A[i])
		}
		s.frozen--
		return
	}
	if op.K == "errorfx" {
		// the directive list refers to operands by position
		s.frozen++
		for i := range op.A {
			s.walkVal(&op.A[i])
		}
		s.frozen--
		return
	}
	if op.K == "panicx" {
		s.frozen++
		if op.In != nil {
			s.walkOp(op.In)
		}
		s.frozen--
		if op.PT != nil {
			for i := range op.PT.Payload {
				s.walkVal(&op.PT.Payload[i])
			}
		}
		return
	}
	s.strs = append(s.strs, &op.F)
	s.vals = append(s.vals, &op.A)
	s.steps = append(s.steps, &op.S)
	s.steps = append(s.steps, &op.Dst)
	for i := range op.A {
		s.walkVal(&op.A[i])
	}
	s.walkSteps(op.S)
	s.walkSteps(op.Dst)
	if op.W != nil && op.W.Op != nil {
		s.walkOp(op.W.Op)
	}
	if op.In != nil {
		s.walkOp(op.In)
	}
	if op.PT != nil {
		for i := range op.PT.Payload {
			s.walkVal(&op.PT.Payload[i])
		}
	}
}

func (s *sites) walkVal(v *Val) {
	s.strs = append(s.strs, &v.S, &v.R)
	if len(v.V) > 0 && s.frozen == 0 {
		s.vals = append(s.vals, &v.V)
	}
	if len(v.P) > 0 && s.frozen == 0 {
		s.steps = append(s.steps, &v.P)
	}
	for i := range v.V {
		s.walkVal(&v.V[i])
	}
	s.walkSteps(v.P)
}

func (s *sites) walkSteps(ss []Step) {
	for i := range ss {
		st := &ss[i]
		if s.frozen == 0 || (st.A != "pf" && st.A != "ff") {
			s.strs = append(s.strs, &st.S)
		}
		if len(st.V) > 0 && s.frozen == 0 {
			s.vals = append(s.vals, &st.V)
		}
		for j := range st.V {
			s.walkVal(&st.V[j])
		}
		if st.O != nil {
			s.walkOp(st.O)
		}
	}
}

func planSites(p *Plan) *sites {
	s := &sites{}
	for ti := range p.Tasks {
		for oi := range p.Tasks[ti].Ops {
			s.walkOp(&p.Tasks[ti].Ops[oi])
		}
	}
	return s
}

// protected says whether an element must not be removed by the
// minimiser because another part of the plan refers to it by position.
func wrapperKind(k string) bool { return k == "safe" || k == "unsafe" }

func minimize(p *Plan, test func(*Plan) bool, budget int) (*Plan, int) {
	return minimizeUntil(p, test, budget, time.Time{})
}

func minimizeUntil(p *Plan, test func(*Plan) bool, budget int, deadline time.Time) (*Plan, int) {
	m := &minimizer{test: test, budget: budget, deadline: deadline}
	p = p.clone()
	for round := 0; round < 6; round++ {
		changed := false
		// 0. one shared value instead of several (indexes are taken modulo
		// the length of the list)
		for k := 0; k < len(p.Shared) && len(p.Shared) > 1; k++ {
			if m.exhausted() {
				break
			}
			q := p.clone()
			q.Shared = []Val{q.Shared[k]}
			if m.try(q) {
				p, changed = q, true
				break
			}
		}
		// 1. drop whole tasks
		for ti := 0; ti < len(p.Tasks) && len(p.Tasks) > 1; ti++ {
			if m.exhausted() {
				break
			}
			q := p.clone()
			q.Tasks = append(q.Tasks[:ti:ti], q.Tasks[ti+1:]...)
			if m.try(q) {
				p, changed = q, true
				ti--
			}
		}
		// 2. drop ops: chunks, then singles
		for ti := range p.Tasks {
			for chunk := len(p.Tasks[ti].Ops) / 2; chunk >= 1; chunk /= 2 {
				for at := 0; at+chunk <= len(p.Tasks[ti].Ops); {
					if m.exhausted() {
						break
					}
					q := p.clone()
					ops := q.Tasks[ti].Ops
					q.Tasks[ti].Ops = append(ops[:at:at], ops[at+chunk:]...)
					if m.try(q) {
						p, changed = q, true
					} else {
						at += chunk
					}
				}
			}
		}
		// 3. simplify tapes
		for ti := range p.Tasks {
			if len(p.Tasks[ti].Tape) == 0 {
				continue
			}
			if m.exhausted() {
				break
			}
			q := p.clone()
			q.Tasks[ti].Tape = nil
			if m.try(q) {
				p, changed = q, true
				continue
			}
			for len(p.Tasks[ti].Tape) > 1 {
				if m.exhausted() {
					break
				}
				q := p.clone()
				q.Tasks[ti].Tape = q.Tasks[ti].Tape[:len(q.Tasks[ti].Tape)/2]
				if !m.try(q) {
					break
				}
				p, changed = q, true
			}
		}
		// 4. remove elements of operand lists and scripts
		for k := 0; ; k++ {
			if m.exhausted() {
				break
			}
			s := planSites(p)
			if k >= len(s.vals) {
				break
			}
			for j := 0; j < siteLenV(p, k); j++ {
				if m.exhausted() {
					break
				}
				q := p.clone()
				sl := planSites(q).vals[k]
				*sl = append((*sl)[:j:j], (*sl)[j+1:]...)
				if len(*sl) == 0 {
					*sl = nil
				}
				if m.try(q) {
					p, changed = q, true
					j--
				}
			}
		}
		for k := 0; ; k++ {
			if m.exhausted() {
				break
			}
			s := planSites(p)
			if k >= len(s.steps) {
				break
			}
			for j := 0; j < siteLenS(p, k); j++ {
				if m.exhausted() {
					break
				}
				q := p.clone()
				sl := planSites(q).steps[k]
				*sl = append((*sl)[:j:j], (*sl)[j+1:]...)
				if m.try(q) {
					p, changed = q, true
					j--
				}
			}
		}
		// 5. replace operands by simpler ones of a trivial class
		for k := 0; ; k++ {
			if m.exhausted() {
				break
			}
			s := planSites(p)
			if k >= len(s.vals) {
				break
			}
			for j := 0; j < siteLenV(p, k); j++ {
				cur := (*planSites(p).vals[k])[j]
				if cur.K == "int" && cur.I == 0 {
					continue
				}
				if m.exhausted() {
					break
				}
				q := p.clone()
				(*planSites(q).vals[k])[j] = Val{K: "int"}
				if m.try(q) {
					p, changed = q, true
					continue
				}
				if len(cur.V) == 1 && wrapperKind(cur.K) { // unwrap
					if m.exhausted() {
						break
					}
					q := p.clone()
					(*planSites(q).vals[k])[j] = cur.V[0]
					if m.try(q) {
						p, changed = q, true
					}
				}
			}
		}
		// 6. shorten strings
		for k := 0; ; k++ {
			if m.exhausted() {
				break
			}
			s := planSites(p)
			if k >= len(s.strs) {
				break
			}
			for siteLenStr(p, k) > 0 {
				cur := *planSites(p).strs[k]
				if m.exhausted() {
					break
				}
				q := p.clone()
				*planSites(q).strs[k] = cur[:len(cur)/2]
				if !m.try(q) {
					break
				}
				p, changed = q, true
			}
		}
		// 7. zero individual tape entries
		for ti := range p.Tasks {
			for j := range p.Tasks[ti].Tape {
				if p.Tasks[ti].Tape[j] == 0 {
					continue
				}
				if m.exhausted() {
					break
				}
				q := p.clone()
				q.Tasks[ti].Tape[j] = 0
				if m.try(q) {
					p, changed = q, true
				}
			}
		}
		if !changed || m.tests >= m.budget {
			break
		}
	}
	return p, m.tests
}

func siteLenV(p *Plan, k int) int {
	s := planSites(p)
	if k >= len(s.vals) {
		return 0
	}
	return len(*s.vals[k])
}

func siteLenS(p *Plan, k int) int {
	s := planSites(p)
	if k >= len(s.steps) {
		return 0
	}
	return len(*s.steps[k])
}

func siteLenStr(p *Plan, k int) int {
	s := planSites(p)
	if k >= len(s.strs) {
		return 0
	}
	return len(*s.strs[k])
}
