#!/usr/bin/env python3
"""mkmutant.py NAME FILE OLD NEW [FILE OLD NEW ...]: apply textual replacements in /repo, check that it
builds and that the baseline tests pass, write /verif/mutants/NAME.patch, and revert /repo."""
import subprocess, sys, os
name = sys.argv[1]
trip = sys.argv[2:]
env = dict(os.environ, GOFLAGS='-mod=mod', GOPROXY='off', GOSUMDB='off', GOTOOLCHAIN='local')
def sh(cmd, **kw):
    return subprocess.run(cmd, shell=True, cwd='/repo', env=env, capture_output=True, text=True, errors='replace', **kw)
assert sh('git status --porcelain').stdout.strip() == '', '/repo not clean'
try:
    for i in range(0, len(trip), 3):
        f, old, new = trip[i:i+3]
        p = os.path.join('/repo', f)
        s = open(p).read()
        assert s.count(old) == 1, f'{f}: pattern occurs {s.count(old)} times'
        open(p, 'w').write(s.replace(old, new))
    b = sh('go build ./... && go test -vet=off -count=1 ./... 2>&1')
    ok = b.returncode == 0
    print(name, 'builds+tests:', 'PASS' if ok else 'FAIL')
    if not ok:
        print(b.stdout[-1500:], b.stderr[-1500:])
    else:
        d = sh('git diff').stdout
        open(f'/verif/mutants/{name}.patch', 'w').write(d)
finally:
    sh('git checkout -- .')
