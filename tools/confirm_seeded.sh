#!/bin/bash
# tools/confirm_seeded.sh <id> : confirm a seeded change in a scratch worktree of /repo:
# applies on the current HEAD, builds, baseline suite passes, demo fails with it and passes without.
set -u
export GOFLAGS=-mod=mod GOPROXY=off GOSUMDB=off GOTOOLCHAIN=local
ID="$1"; D="/verif/seeded/$ID"; W="/tmp/confirm-$ID"
git -C /repo worktree remove --force "$W" 2>/dev/null
git -C /repo worktree add -q --detach "$W" HEAD || exit 2
cd "$W" || exit 2
R=""
git apply "$D/patch.diff" && R="$R applies=yes" || R="$R applies=NO"
go build ./... && go test -vet=off -count=1 ./... >/tmp/confirm-$ID-suite.log 2>&1 && R="$R suite_with_change=pass" || R="$R suite_with_change=FAIL"
cp "$D/seeded_demo_test.go.txt" seeded_demo_test.go
CMD="$(grep -m1 '^export' "$D/demo_cmd.txt")"
bash -c "$CMD" >/tmp/confirm-$ID-with.log 2>&1 && R="$R demo_with_change=PASS(unexpected)" || R="$R demo_with_change=fail(expected)"
git apply -R "$D/patch.diff"
bash -c "$CMD" >/tmp/confirm-$ID-without.log 2>&1 && R="$R demo_without_change=pass(expected)" || R="$R demo_without_change=FAIL(unexpected)"
cd /; git -C /repo worktree remove --force "$W"
echo "$ID:$R"
