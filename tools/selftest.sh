#!/bin/bash
# tools/selftest.sh [--all] [patch ...]
# Sensitivity self-test (DESIGN.md §3.5): apply each deliberately property-breaking,
# test-passing change to /repo, run the owning property's quick check (with --all: every
# check), expect exit 1 from the owner, and revert. benign/*/patch.diff are behaviour-preserving
# refactorings: every check is run and must exit 0 (false-alarm test). /repo must be clean. Development
# tool, not one of the registered commands.
set -u
ALL=0; [ "${1:-}" = "--all" ] && { ALL=1; shift; }
cd /verif || exit 2
PATCHES=("$@")
if [ ${#PATCHES[@]} -eq 0 ]; then
  PATCHES=(mutants/*.patch seeded/*/patch.diff)
fi
# works on a scratch worktree of /repo's HEAD and on a scratch copy of /verif (sources,
# evidence and replays of these runs stay there), so neither /repo nor /verif is touched
# and both may be edited while this runs
SCR="$(mktemp -d /tmp/selftest-repo-XXXXXX)"; rmdir "$SCR"
git -C /repo worktree add -q --detach "$SCR" HEAD || exit 2
SCRV="$(mktemp -d /tmp/selftest-verif-XXXXXX)"
cp -a /verif/check /verif/sim /verif/known_findings.json "$SCRV"/
trap 'git -C /repo worktree remove --force "$SCR"; rm -rf "$SCRV"' EXIT
export VERIF_REPO="$SCR"
printf "%-58s %-5s %s\n" "change" "owner" "results (check=exit)"
for P in "${PATCHES[@]}"; do
  [ -f "$P" ] || continue
  case "$P" in
    benign/*) NAME="benign-$(basename "$(dirname "$P")")"; OWNER="none";;
    seeded/*) NAME="$(basename "$(dirname "$P")")"; OWNER="$(python3 -c "import json;print(json.load(open('$(dirname "$P")/meta.json'))['property'])" 2>/dev/null)";;
    *) NAME="$(basename "$P" .patch)"; OWNER="${NAME%%-*}";;
  esac
  if ! git -C "$SCR" apply "/verif/$P" 2>/dev/null; then printf "%-58s %-5s %s\n" "$NAME" "$OWNER" "PATCH DOES NOT APPLY"; continue; fi
  RES=""
  CHECKS="$OWNER"; [ $ALL = 1 ] && CHECKS="C11 C12 C13 C15 C16"
  [ "$OWNER" = none ] && CHECKS="C11 C12 C13 C15 C16"   # behaviour-preserving: every check must stay quiet
  for C in $CHECKS; do
    timeout 1800 "$SCRV/check" "$C" quick > "/tmp/selftest-$NAME-$C.log" 2>&1; RC=$?
    RES="$RES $C=$RC"
  done
  git -C "$SCR" checkout -- . ; git -C "$SCR" clean -fdq
  printf "%-58s %-5s %s\n" "$NAME" "$OWNER" "$RES"
done
