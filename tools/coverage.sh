#!/bin/bash
# tools/coverage.sh [runs-per-property] [seed]
# Reach measurement (DESIGN.md §9): statement coverage of the library's own code
# (github.com/cockroachdb/redact/...) while the five simulated workloads run, and the
# list of blocks no run entered. Development tool, not one of the registered commands;
# the numbers in DESIGN.md §12.4 come from it. Uses a scratch directory under /tmp.
set -u
export GOFLAGS=-mod=mod GOPROXY=off GOSUMDB=off GOTOOLCHAIN=local
N="${1:-400}"; SEED="${2:-5}"
W="$(mktemp -d /tmp/verif-cov-XXXXXX)"; trap 'rm -rf "$W"' EXIT
mkdir -p "$W/d" "$W/rp"
cd /verif/sim || exit 2
# the main package must be instrumented too, or no counters are written
go build -tags verif -cover -coverpkg=verif/sim,github.com/cockroachdb/redact/... -o "$W/simcov" . || exit 2
for P in C11 C12 C13 C15 C16; do
  GOCOVERDIR="$W/d" GOMAXPROCS=4 timeout 3600 "$W/simcov" run -prop $P -seed "$SEED" -n "$N" -replaydir "$W/rp" >/dev/null 2>&1
done
go tool covdata textfmt -i="$W/d" -o "$W/all.txt" || exit 2
grep -v "^verif/sim" "$W/all.txt" > "$W/lib.txt"
go tool cover -func="$W/lib.txt" | awk '{gsub("github.com/cockroachdb/redact/",""); if ($NF+0<100) print $NF, $1, $2}' | sort -n
echo "--- blocks never entered"
python3 - "$W/lib.txt" <<'PY'
import re,sys,collections
blocks=collections.defaultdict(int)
for l in open(sys.argv[1]):
    m=re.match(r'(.*):(\d+)\.(\d+),(\d+)\.(\d+) (\d+) (\d+)',l)
    if not m: continue
    f,sl,sc,el,ec,n,c=m.groups()
    blocks[(f,int(sl),int(el))]+=int(c)
for f,sl,el in sorted(k for k,v in blocks.items() if v==0):
    ff=f.replace('github.com/cockroachdb/redact/','')
    try: src=open('/repo/'+ff).read().split('\n')[sl-1].strip()[:100]
    except Exception: src=''
    print('%s:%d-%d: %s'%(ff,sl,el,src))
PY
